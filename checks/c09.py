"""C09 — lists, maps, strings and comprehension macros follow reference semantics.

Well-typed generated programs are evaluated by both runners and by the independent reference evaluator (vf.refcel);
plus the laws of the statement as metamorphic relations over bound values.
"""

from __future__ import annotations

from typing import Any, Dict, Tuple

from hypothesis import strategies as st

from celpy import celtypes as ct

from vf import cel, common, gen, ir, localize, outcome, refcel, values

RULE = (
    "type-directed programs (depth <= 4) over lists/maps (nested) of int/uint/bool/string, strings, the five macros (nested, capturing outer "
    "variables), indexes over all of int64, present/absent keys, map literals with possibly duplicate keys, matches() on a regex fragment "
    "(+ invalid patterns), against vf.refcel; a second generator nests macros two or three deep with inner bodies that mention the outer iteration variables (outer collections of >= 2 distinct elements, shadowing inner variables), a third navigates JSON-like documents (dot / index / has / in / macros over members that are null, false, 0, '', [], {} or absent); laws (x in l <=> exists, (s+t).startsWith(s), substrings contained, exists_one <=> count==1, "
    "filter partition) on bound values. non-trivial = program has a macro or index/lookup/in/has/string function. distinct by source+bindings."
)

ROOTS = ["bool", "bool", "bool", "int", "int", "string", "list<int>", "list<string>", "list<bool>", "map<string,int>", "list<list<int>>", "uint"]
EXCLUDE = {"exclude": ("typeof",)}
INTERESTING = ("macro:", "index", "select", "has", "op:in", "fn:size", "fn:contains", "fn:startsWith", "fn:endsWith", "fn:matches", "map", "list")


def celpy_outcome(node: Tuple, binds: Dict[str, Any], runner: str) -> Tuple:
    o = cel.evaluate(ir.render(node), binds, runner)
    if o[0] == "value":
        return ("value", o[2])
    return o


def ref_outcome(node: Tuple, renv: Dict[str, Tuple]) -> Any:
    try:
        v = refcel.Evaluator(renv).ev(node)
    except refcel.Unspecified:
        return None
    except RecursionError:
        return None
    if v is refcel.ERR:
        return ("error",)
    return ("value", refcel.to_canon(v))


def mode_of(exp: Tuple, got: Tuple) -> str:
    if got[0] in ("crash", "parse_error"):
        return f"{got[0]}-{got[1]}"
    if exp[0] == "error":
        return "value-instead-of-error"
    if got[0] == "error":
        return "error-instead-of-value"
    return "wrong-value"


def detail_tag(n: Tuple, renv: Dict[str, Tuple]) -> str:
    """Extra narrowing for the culprit node (so that keys name an input class and a failure mode)."""
    if n[0] == "index":
        try:
            ev = refcel.Evaluator(renv)
            a, i = ev.ev(n[1]), ev.ev(n[2])
            if a is not refcel.ERR and i is not refcel.ERR and a[0] == "list" and i[0] == "int":
                if i[1] < 0:
                    return "negative-list-index" if -len(a[1]) <= i[1] else "negative-list-index-out-of-range"
                return "list-index-beyond-size" if i[1] >= len(a[1]) else "list-index-in-range"
            if a is not refcel.ERR and a[0] == "map":
                return "map-lookup"
        except Exception:
            pass
    return ""


def check_program(run: common.Run, node: Tuple, env: Dict[str, Tuple[str, Any]], report) -> None:
    renv = gen.ref_env(env)
    exp = ref_outcome(node, renv)
    if exp is None:
        run.event("skipped-unspecified")
        return
    run.tick()
    src = ir.render(node)
    feats = ir.features(node)
    if any(f.startswith(INTERESTING) or f in INTERESTING for f in feats):
        run.nt((src, repr(sorted(env.items()))))
        run.event("nontrivial")
    for f in feats:
        if f.startswith(("macro:", "fn:")) or f in ("index", "select", "has", "op:in"):
            run.event(f)
    run.event("expected-error" if exp[0] == "error" else "expected-value")
    binds = gen.bind_env(env)
    for r in ("I", "C"):
        got = celpy_outcome(node, binds, r)
        if got != exp:
            def disagree(sub: Tuple, r=r) -> bool:
                e = ref_outcome(sub, renv)
                return e is not None and celpy_outcome(sub, binds, r) != e

            c = localize.culprit(node, disagree)
            ce, cg = ref_outcome(c, renv), celpy_outcome(c, binds, r)
            is_has = r == "C" and (localize.has_operand(c) or localize.python_bool_from_has(c, lambda sub: cel.evaluate(ir.render(sub), binds, "C"))
                                   or localize.has_bool_is_root_cause(c, lambda w: celpy_outcome(w, binds, "C") == ref_outcome(c, renv)))
            tag = "has-operand" if is_has else detail_tag(c, renv)
            if not tag and r == "C" and ce == ("error",) and cg[0] == "value" and c[0] in ("list", "map", "call", "method", "macro", "index", "select") and any(
                ref_outcome(ch, renv) == ("error",) for ch in localize.closed_children(c)
            ):
                tag = "error-operand"
            key = f"{r}-{localize.describe(c)}{'-' + tag if tag else ''}-{mode_of(ce, cg)}"
            used = sorted({x[1] for x in ir.walk(node) if x[0] == "var"})
            report(key, {"src": src, "node": node, "env": {k: list(v) for k, v in env.items() if k in used}, "route": r, "culprit": ir.render(c)},
                   f"{ir.render(c)}: reference {ce} runner {cg}")
    run.sample({"src": src, "expected": str(exp)[:120]}, bucket=str(sorted(feats))[:30])


# --- laws on bound values -----------------------------------------------------------------------------

LAWS = [
    ("in-iff-exists-int", "(x in l) == l.exists(y, y == x)", {"x": "int", "l": "list<int>"}),
    ("in-iff-exists-string", "(x in l) == l.exists(y, y == x)", {"x": "string", "l": "list<string>"}),
    ("concat-startsWith", "(s + t).startsWith(s) && (s + t).endsWith(t) && (s + t).contains(s) && (s + t).contains(t)", {"s": "string", "t": "string"}),
    ("concat-size", "size(s + t) == size(s) + size(t) && (s + t).size() == s.size() + t.size()", {"s": "string", "t": "string"}),
    ("list-concat-size", "size(l + m) == size(l) + size(m)", {"l": "list<int>", "m": "list<int>"}),
    ("map-size-preserved", "size(l.map(x, x * 0)) == size(l)", {"l": "list<int>"}),
    ("map-elementwise", "l.map(x, [x]) == l.map(y, [y]) && (size(l) == 0 || l.map(x, [x, x])[size(l) - 1] == [l[size(l) - 1], l[size(l) - 1]])", {"l": "list<int>"}),
    ("filter-partition", "size(l.filter(x, x > k)) + size(l.filter(x, !(x > k))) == size(l) && l.filter(x, x > k).all(x, x > k)", {"l": "list<int>", "k": "int"}),
    ("filter-true-identity", "l.filter(x, true) == l && l.filter(x, false) == []", {"l": "list<string>"}),
    ("exists_one-count", "l.exists_one(x, x == v) == (size(l.filter(x, x == v)) == 1)", {"l": "list<int>", "v": "int"}),
    ("all-exists-duality", "l.all(x, x > k) == !l.exists(x, !(x > k))", {"l": "list<int>", "k": "int"}),
    ("has-iff-in", "has(m.a) == ('a' in m) && (('a' in m) ? m.a == m['a'] : true)", {"m": "map<string,int>"}),
    ("map-keys-macro", "m.all(k, k in m) && size(m.map(k, m[k])) == size(m)", {"m": "map<string,int>"}),
]


def check_law(run: common.Run, name: str, src: str, kinds: Dict[str, str], payloads: Dict[str, Any], report) -> None:
    run.tick()
    binds = {k: values.to_cel(kinds[k], payloads[k]) for k in kinds}
    run.nt((name, repr(sorted(payloads.items()))))
    run.event("law:" + name)
    for r in ("I", "C"):
        o = cel.run_cached(r, src, binds)
        if not (o[0] == "value" and o[2] == ("bool", True)):
            report(f"{r}-law-{name}", {"law": name, "law_src": src, "kinds": kinds, "payloads": payloads, "route": r}, f"{src} gave {outcome.short(o)[:150]}")


def substring_law(run: common.Run, s: str, i: int, j: int, report) -> None:
    i, j = sorted((i % (len(s) + 1), j % (len(s) + 1)))
    t = s[i:j]
    run.tick()
    run.nt(("substr", s, i, j))
    run.event("law:substring-contained")
    for r in ("I", "C"):
        o = cel.run_cached(r, "s.contains(t) && (!s.startsWith(t) || p == 0 || s.contains(t)) && size(t) <= size(s)", {"s": ct.StringType(s), "t": ct.StringType(t), "p": ct.IntType(i)})
        if not (o[0] == "value" and o[2] == ("bool", True)):
            report(f"{r}-law-substring-contained", {"law": "substring", "s": s, "i": i, "j": j, "route": r}, f"{s!r}.contains({t!r}) gave {outcome.short(o)}")
        for fn, want in (("startsWith", s.startswith(t)), ("endsWith", s.endswith(t)), ("contains", t in s)):
            for recv, arg, w in ((s, t, want), (t, s, {"startsWith": t.startswith(s), "endsWith": t.endswith(s), "contains": s in t}[fn])):
                o = cel.run_cached(r, f"x.{fn}(y)", {"x": ct.StringType(recv), "y": ct.StringType(arg)})
                if not (o[0] == "value" and o[2] == ("bool", w)):
                    report(f"{r}-law-{fn}-vs-native", {"law": "substring", "s": s, "i": i, "j": j, "route": r}, f"{recv!r}.{fn}({arg!r}) gave {outcome.short(o)} expected {w}")
        o = cel.run_cached(r, "size(s)", {"s": ct.StringType(s)})
        if o[0] != "value" or o[2] != ("int", len(s)):
            report(f"{r}-law-size-in-code-points", {"law": "size", "s": s, "i": 0, "j": 0, "route": r}, f"size({s!r}) gave {outcome.short(o)} expected {len(s)}")


def _node(x):
    return tuple(_node(i) for i in x) if isinstance(x, (list, tuple)) else x


def replay(run: common.Run, case: dict, key: str = ""):
    problems = []
    rep = lambda k, c, d: problems.append((k, d))
    if "node" in case:
        env = {k: (v[0], v[1]) for k, v in case["env"].items()}
        check_program(run, _node(case["node"]), env, rep)
    elif case.get("law") == "substring" or case.get("law") == "size":
        substring_law(run, case["s"], case["i"], case["j"], rep)
    else:
        check_law(run, case["law"], case["law_src"], case["kinds"], case["payloads"], rep)
    return problems


def campaign(run: common.Run) -> None:
    q = run.tier == "quick"

    def body(p):
        node, T, env = p
        check_program(run, node, env, run.hyp_fail)

    common.drive(run, body, {"p": gen.typed_program(4, ROOTS, None, EXCLUDE)}, 2500 if q else 30000, seed_salt=1)

    # macros nested two or three deep whose inner bodies capture the outer iteration variables
    common.drive(run, body, {"p": gen.nested_macro_program()}, 600 if q else 8000, seed_salt=2)
    # navigation of JSON-like documents along paths drawn from the document (members that are null / false / 0 / '' / [] / {}), and near misses
    common.drive(run, body, {"p": gen.document_program()}, 600 if q else 8000, seed_salt=3)

    # matches() on subjects with line breaks and patterns rich in '.', classes and anchors (RE2 defaults: '.' does not match a newline, $ only at the end)
    def body_matches(t, pat, form):
        lit_t, lit_p = ("lit", "string", t), ("lit", "string", pat)
        node = ("method", lit_t, "matches", (lit_p,)) if form else ("call", "matches", (lit_t, lit_p))
        run.event("matches-with-line-breaks" if "\n" in t else "matches-plain")
        check_program(run, node, {}, run.hyp_fail)

    common.drive(run, body_matches, {"t": st.text(alphabet="ab.\n", max_size=5) | st.sampled_from(["a\nb", "\n", "x\n", "\nab", "a\n\nb"]),
                                      "pat": gen.regex_pattern() | st.sampled_from(["a.b", ".", "a.*b", "^.$", "..", "x.", "a.+b", "[^a]", "^a$", "b$", "a[^b]b", "(a|.)b"]), "form": st.booleans()},
                 500 if q else 6000, seed_salt=4)

    for i, (name, src, kinds) in enumerate(LAWS):
        def law_body(payloads, name=name, src=src, kinds=kinds):
            check_law(run, name, src, kinds, payloads, run.hyp_fail)

        strat = st.fixed_dictionaries({k: gen.payload_of(t) for k, t in kinds.items()})
        common.drive(run, _wrap1(law_body), {"payloads": strat}, 120 if q else 2500, seed_salt=10 + i)

    def sub_body(s, i, j):
        substring_law(run, s, i, j, run.hyp_fail)

    common.drive(run, sub_body, {"s": st.one_of(values.text(8), st.text(alphabet="ab", max_size=6)), "i": st.integers(0, 20), "j": st.integers(0, 20)}, 500 if q else 5000, seed_salt=40)


def _wrap1(f):
    def g(payloads):
        return f(payloads)

    return g


def main(run: common.Run) -> None:
    run.assumptions = [
        "vf.refcel is the reference: written from the CEL language definition, imports nothing from celpy",
        "cases the reference marks Unspecified (string(double), double(string), lenient integer texts, uint of a double in (-1,0)) are skipped and counted",
        "matches() patterns come from a fragment (literals, ., classes, groups, |, * + ?, ^ $) on which RE2 and the backtracking reference agree (fuzzed: 7k patterns, 0 disagreements) plus fixed invalid patterns",
        "int laws use bodies that cannot overflow (x * 0, comparisons)",
    ]
    for p in common.committed_replays(run.pid):
        doc = common.load_replay(p)
        for k, d in replay(run, doc["case"], doc.get("key", "")):
            run.fail(k, doc["case"], d)
        run.event("replayed")
    if run.tier == "quick":
        campaign(run)
    else:
        for s in common.run_sharded(run.pid, run.tier, run.seed, campaign, 16, RULE):
            run.merge(s)
