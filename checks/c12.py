"""C12 — names resolve to the longest matching binding; macro variables are scoped.

(1) exhaustive: path a.b.c, every subset of its prefixes bound (scalar, or map holding the rest of the path), at every package level,
    for packages none / p / p.q, references a, a.b, a.b.c, a.b.d, .a, .a.b, .a.b.c; with and without declarations (annotations) of the same names;
    oracle = a reference resolver written from the statement (cases the statement does not determine are skipped and counted).
(2) generated programs with nested macros whose iteration variables (x, y) collide with outer bindings: vs vf.refcel (lexical scoping).
Both runners.
"""

from __future__ import annotations

import itertools
from typing import Any, Dict, List, Optional, Tuple

from hypothesis import strategies as st

import celpy
from celpy import celtypes as ct

from vf import cel, common, gen, ir, localize, outcome, refcel

RULE = (
    "every subset of {a, a.b, a.b.c} bound as scalar or as a map holding the rest of the path, declared at each package level (root, p, p.q) and at two "
    "levels at once, x package in {none, p, p.q} x references {a, a.b, a.b.c, a.b.d, .a, .a.b, .a.b.c} x {no annotations, annotations for every bound name}; "
    "random binding sets over a 4-letter alphabet, depth 4 (Hypothesis); programs with nested macros over x/y colliding with outer x/y, and macros nested 2-3 deep whose inner bodies "
    "read the outer iteration variables, vs the reference evaluator. non-trivial = >= 2 bindings compete for the reference, or a package level is skipped, or a macro variable collides with an outer name. "
    "distinct by (bindings, package, reference)."
)
ERR = ("error",)
UNSPEC = None


def split(name: str) -> List[str]:
    return name.split(".")


def resolve(bindings: Dict[str, Any], package: Optional[str], ref: str) -> Any:
    """Reference resolver from the statement. Returns a Python value, ERR, or UNSPEC."""
    root_only = ref.startswith(".")
    path = split(ref.lstrip("."))
    pk = split(package) if package else []
    if root_only and pk:
        return UNSPEC  # the statement does not speak about '.name' under a package
    levels = [[]] if root_only else [pk[:i] for i in range(len(pk), -1, -1)]
    # a package prefix that is itself bound to a value: the qualified name p.q.a... then has that binding as its longest bound prefix, and the rest of the
    # package path and the reference are field selections on it ("the remaining components being applied as field selections"). Asserted only when
    # the bound prefix is not ALSO a namespace of longer bound names (that combination is the recorded finding / not determined).
    bound_prefixes = [pk[:i] for i in range(1, len(pk) + 1) if ".".join(pk[:i]) in bindings]
    if bound_prefixes:
        if len(bound_prefixes) > 1:
            return UNSPEC
        bp = bound_prefixes[0]
        name = ".".join(bp)
        if any(k != name and k.startswith(name + ".") for k in bindings):
            return UNSPEC
        for level in levels:
            # longer (dotted) bindings at this level win over the map reached through the shorter prefix
            if any(split(k)[: len(level)] == level and len(split(k)) > len(level) and split(k)[len(level)] == path[0] for k in bindings):
                return UNSPEC if len(level) >= len(bp) else UNSPEC
            if len(level) < len(bp):
                continue  # this level lies above the bound prefix: ordinary lookup below
            v = bindings[name]
            ok = True
            for comp in level[len(bp):] + [path[0]]:
                if not isinstance(v, dict) or comp not in v:
                    ok = False
                    break
                v = v[comp]
            if not ok:
                continue  # this level does not bind the head of the reference
            resolve.selected = name
            for comp in path[1:]:
                if not isinstance(v, dict) or comp not in v:
                    return ERR
                v = v[comp]
            return v
        # no package level reached the reference through the map: the root level is an ordinary lookup among the other bindings
        bindings = {k: v for k, v in bindings.items() if k != name}
        levels = [[]]
        if path[0] == bp[0]:
            return UNSPEC
    for level in levels:
        rel = {}
        for name, v in bindings.items():
            comps = split(name)
            if comps[: len(level)] == level and len(comps) > len(level):
                rel[tuple(comps[len(level):])] = v
        if not root_only or True:
            binders = [k for k in rel if k[0] == path[0]]
        if not binders:
            continue
        # this level binds the head: longest binding name that is a prefix of the reference
        prefixes = [k for k in binders if list(k) == path[: len(k)]]
        if not prefixes:
            # only longer names exist (the reference denotes a namespace) or diverging names: not determined
            return UNSPEC
        best = max(prefixes, key=len)
        resolve.selected = ".".join(level + list(best))  # for classification only
        v = rel[best]
        for comp in path[len(best):]:
            if not isinstance(v, dict):
                return ERR
            if comp not in v:
                return ERR
            v = v[comp]
        return v
    return ERR


def to_cel(v: Any) -> Any:
    if isinstance(v, dict):
        return ct.MapType({ct.StringType(k): to_cel(x) for k, x in v.items()})
    return ct.IntType(v)


def canon_py(v: Any) -> Any:
    if isinstance(v, dict):
        return ("map", tuple(sorted(((("string", k), canon_py(x)) for k, x in v.items()), key=repr)))
    return ("int", v)


def annotation_for(v: Any) -> Any:
    return ct.MapType if isinstance(v, dict) else ct.IntType


def observe(ref: str, bindings: Dict[str, Any], package: Optional[str], annotate: bool, runner: str) -> Any:
    ann = {k: annotation_for(v) for k, v in bindings.items()} if annotate else None
    o = cel.evaluate(ref, {k: to_cel(v) for k, v in bindings.items()}, runner, annotations=ann, package=package)
    if o[0] == "value":
        return o[2]
    if o[0] == "error":
        return ERR
    return o


def check_resolution(run: common.Run, bindings: Dict[str, Any], package: Optional[str], ref: str, annotate: bool, report) -> None:
    resolve.selected = None
    exp = resolve(bindings, package, ref)
    if exp is UNSPEC:
        run.event("skipped-unspecified")
        return
    run.tick()
    expc = exp if exp == ERR else canon_py(exp)
    head = ref.lstrip(".").split(".")[0]
    competing = [k for k in bindings if head in k.split(".")]
    if len(competing) >= 2 or (package and not any(k.startswith(package + ".") for k in bindings)):
        run.nt((repr(sorted(bindings.items())), package, ref, annotate))
        run.event("nontrivial")
    run.event(f"package:{package}")
    run.event("expected-error" if exp == ERR else "expected-value")
    case = {"bindings": bindings, "package": package, "ref": ref, "annotate": annotate}
    for r in ("I", "C"):
        got = observe(ref, bindings, package, annotate, r)
        if got != expc:
            mode = "crash" if (got != ERR and got[0] == "crash") else ("value-instead-of-error" if expc == ERR else "error-instead-of-value" if got == ERR else "wrong-binding")
            sel = getattr(resolve, "selected", None)
            if sel is not None and any(k != sel and k.startswith(sel + ".") for k in bindings):
                what = "selected-binding-is-also-a-namespace-prefix"
            else:
                lv = 0 if sel is None else len(sel.split(".")) - len([c for c in ref.lstrip(".").split(".")][: len(sel.split("."))])
                what = f"pkg{len(package.split('.')) if package else 0}-ref{len(ref.lstrip('.').split('.'))}{'-dot' if ref.startswith('.') else ''}{'-ann' if annotate else ''}"
            report(f"{r}-resolve-{what}-{mode}", dict(case, route=r), f"{ref} with {bindings} package={package}: expected {expc} got {str(got)[:160]}")
    run.sample({"bindings": {k: v for k, v in bindings.items()}, "package": package, "ref": ref, "expected": str(expc)[:60]}, bucket=f"{package}{ref}")


REFS = ["a", "a.b", "a.b.c", "a.b.d", ".a", ".a.b", ".a.b.c"]
PATH = ["a", "b", "c"]


def value_for(name: str, kind: str, tag: int) -> Any:
    """scalar, or a map holding the remaining components of a.b.c (and a sibling 'd')."""
    comps = name.split(".")
    rest = PATH[len(comps):]  # components of a.b.c after this binding's own name
    if kind == "val" or not rest:
        return tag
    v: Any = {"c": tag + 1, "d": tag + 2} if rest == ["c"] else None
    if rest == ["b", "c"]:
        v = {"b": {"c": tag + 1, "d": tag + 2}, "z": tag + 3}
    return v


def exhaustive_resolution(run: common.Run, report) -> int:
    n = 0
    prefixes = ["a", "a.b", "a.b.c"]
    levels = ["", "p.", "p.q."]
    for package in (None, "p", "p.q"):
        for subset_mask in range(1, 8):
            names = [prefixes[i] for i in range(3) if subset_mask & (1 << i)]
            kind_choices = [["val", "map"] if nme != "a.b.c" else ["val"] for nme in names]
            for kinds in itertools.product(*kind_choices):
                for lvset in ([0], [1], [2], [0, 1], [0, 2], [1, 2]):
                    bindings: Dict[str, Any] = {}
                    for li in lvset:
                        for j, (nme, kd) in enumerate(zip(names, kinds)):
                            bindings[levels[li] + nme] = value_for(nme, kd, 1000 * (li + 1) + 100 * (j + 1))
                    for ref in REFS:
                        for annotate in (False, True):
                            check_resolution(run, bindings, package, ref, annotate, report)
                            n += 1
    # a leading part of the package bound as a nested MAP: the qualified name is reached through field selections on it
    deep = {"q": {"c": 1, "r": {"c": 5, "d": {"e": 6}}}, "c": 2, "x": {"c": 7}}
    for package, bindings in [
        ("p.q", {"p": deep, "c": 3}), ("p.q", {"p": deep}), ("p.q", {"p": {"q": {"z": 0}, "c": 2}, "c": 3}), ("p.q", {"p": {"x": 1}, "c": 3}),
        ("p.q.r", {"p": deep, "c": 3}), ("p.q.r", {"p.q": {"r": {"c": 5}, "c": 1}, "c": 3}), ("p.q.r", {"p.q": {"c": 1}, "c": 3}), ("p.q", {"p": 9, "c": 3}),
    ]:
        for ref in ["c", "c.d", "d.e", "r.c", "x.c", "z", "q.c"]:
            for annotate in (False, True):
                check_resolution(run, bindings, package, ref, annotate, report)
                run.event("package-prefix-bound-to-a-map")
                n += 1
    return n


@st.composite
def random_bindings(draw):
    alpha = ["a", "b", "c", "p"]
    names = draw(st.lists(st.lists(st.sampled_from(alpha), min_size=1, max_size=4).map(".".join), min_size=1, max_size=4, unique=True))
    b: Dict[str, Any] = {}
    for i, nme in enumerate(names):
        if draw(st.booleans()):
            b[nme] = 10 * (i + 1)
        else:
            b[nme] = {k: (10 * (i + 1) + j if draw(st.booleans()) else {"c": 7, "a": 8}) for j, k in enumerate(draw(st.lists(st.sampled_from(alpha), max_size=3, unique=True)))}
    package = draw(st.sampled_from([None, "p", "p.a", "a", "b.c"]))
    ref = ("." if draw(st.integers(0, 4)) == 0 else "") + ".".join(draw(st.lists(st.sampled_from(alpha), min_size=1, max_size=4)))
    return b, package, ref, draw(st.booleans())


# --- macro scoping --------------------------------------------------------------------------------------

SCOPE_KINDS = {"x": "int", "y": "int", "i1": "int", "li": "list<int>", "ll": "list<list<int>>", "ls": "list<string>", "b1": "bool", "s1": "string", "msi": "map<string,int>"}


def ref_outcome(node: Tuple, renv: Dict[str, Tuple]) -> Any:
    try:
        v = refcel.Evaluator(renv).ev(node)
    except (refcel.Unspecified, RecursionError):
        return None
    return ("error",) if v is refcel.ERR else ("value", refcel.to_canon(v))


def collides(node: Tuple) -> bool:
    """A macro binds x or y while x / y is also read outside that macro's body (or another macro nested inside rebinds it)."""
    macro_vars = [n[3] for n in ir.walk(node) if n[0] == "macro"]
    if not macro_vars:
        return False

    def free_reads(n: Tuple, bound: frozenset) -> bool:
        if n[0] == "var":
            return n[1] in ("x", "y") and n[1] not in bound
        if n[0] == "macro":
            return free_reads(n[1], bound) or free_reads(n[4], bound | {n[3]})
        return any(free_reads(c, bound) for c in ir.children(n))

    nested_rebinding = any(n[0] == "macro" and any(m[0] == "macro" and m[3] == n[3] for m in ir.walk(n[4])) for n in ir.walk(node))
    return free_reads(node, frozenset()) or nested_rebinding


def check_scoping(run: common.Run, node: Tuple, env: Dict[str, Tuple[str, Any]], report) -> None:
    if not any(n[0] == "macro" for n in ir.walk(node)):
        return
    renv = gen.ref_env(env)
    exp = ref_outcome(node, renv)
    if exp is None:
        run.event("skipped-unspecified")
        return
    run.tick()
    src = ir.render(node)
    if collides(node):
        run.nt((src, repr(sorted(env.items()))))
        run.event("nontrivial")
        run.event("macro-variable-collision")
    depth = max((sum(1 for m in ir.walk(n) if m[0] == "macro") for n in ir.walk(node) if n[0] == "macro"), default=0)
    run.event(f"macro-nesting:{min(depth, 3)}")
    binds = gen.bind_env(env)
    for r in ("I", "C"):
        o = cel.evaluate(src, binds, r)
        got = ("value", o[2]) if o[0] == "value" else o
        if got != exp:
            def disagree(sub: Tuple, r=r) -> bool:
                e = ref_outcome(sub, renv)
                if e is None:
                    return False
                so = cel.evaluate(ir.render(sub), binds, r)
                return (("value", so[2]) if so[0] == "value" else so) != e

            c = localize.culprit(node, disagree)
            def _agrees(w: Tuple) -> bool:
                so = cel.evaluate(ir.render(w), binds, "C")
                return (("value", so[2]) if so[0] == "value" else so) == ref_outcome(c, renv)

            is_has = r == "C" and (localize.has_operand(c) or localize.python_bool_from_has(c, lambda sub: cel.evaluate(ir.render(sub), binds, "C"))
                                   or localize.has_bool_is_root_cause(c, _agrees))
            key = f"{r}-scope-{localize.describe(c)}{'-has-operand' if is_has else ''}-{'collision' if collides(c) else 'no-collision'}"
            report(key, {"src": src, "node": node, "env": {k: list(v) for k, v in env.items()}, "route": r}, f"{ir.render(c)[:140]}: reference {exp} got {str(got)[:120]}")
    run.sample({"src": src, "outer": {k: v[1] for k, v in env.items() if k in ("x", "y")}}, bucket="scope")
    check_alpha(run, node, env, report)


def alpha_rename(node: Tuple, mapping: Optional[Dict[str, str]] = None, counter: Optional[List[int]] = None) -> Tuple:
    """The same program with every macro's iteration variable renamed to a fresh name (v_0, v_1, ...), occurrences inside the body included: by the
    statement ("shadows an outer variable of the same name inside the macro body only") this changes no outcome."""
    mapping = mapping or {}
    counter = counter if counter is not None else [0]
    t = node[0]
    if t == "var":
        return ("var", mapping.get(node[1], node[1]))
    if t == "macro":
        recv = alpha_rename(node[1], mapping, counter)
        fresh = f"v_{counter[0]}"
        counter[0] += 1
        body = alpha_rename(node[4], dict(mapping, **{node[3]: fresh}), counter)
        return ("macro", recv, node[2], fresh, body)
    if t in ("lit", "raw", "dotvar"):
        return node
    out = []
    for part in node:
        if isinstance(part, tuple) and part and isinstance(part[0], str) and part[0] in ("lit", "var", "macro", "bin", "un", "cond", "index", "select", "has", "call", "method", "list", "map", "paren", "msg", "raw", "dotvar", "dotcall"):
            out.append(alpha_rename(part, mapping, counter))
        elif isinstance(part, tuple):
            out.append(tuple(alpha_rename(q, mapping, counter) if isinstance(q, tuple) and q and isinstance(q[0], str) and q[0] in ("lit", "var", "macro", "bin", "un", "cond", "index", "select", "has", "call", "method", "list", "map", "paren", "msg", "raw", "dotvar", "dotcall") else
                             (tuple(alpha_rename(z, mapping, counter) if isinstance(z, tuple) and z and isinstance(z[0], str) and z[0] in ("lit", "var", "macro", "bin", "un", "cond", "index", "select", "has", "call", "method", "list", "map", "paren") else z for z in q) if isinstance(q, tuple) else q)
                             for q in part))
        else:
            out.append(part)
    return tuple(out)


def check_alpha(run: common.Run, node: Tuple, env: Dict[str, Tuple[str, Any]], report) -> None:
    """Metamorphic: renaming the iteration variables apart changes nothing - with every outer name bound, and with the colliding outer names only DECLARED
    (an annotation, no value), where a binding made for the macro body must not outlive the body."""
    if not collides(node):
        return
    renamed = alpha_rename(node)
    src, src2 = ir.render(node), ir.render(renamed)
    if src == src2:
        return
    from celpy import celtypes as _ct

    colliding = sorted({n[3] for n in ir.walk(node) if n[0] == "macro" and n[3] in env})
    variants = [("all-bound", gen.bind_env(env), None)]
    if colliding:
        partial = {k: v for k, v in env.items() if k not in colliding}
        variants.append(("declared-only", gen.bind_env(partial), {k: _ct.IntType for k in colliding}))
    for label, binds, ann in variants:
        for r in ("I", "C"):
            run.tick()
            run.event("alpha-renaming:" + label)
            a = cel.evaluate(src, binds, r, annotations=ann)
            b = cel.evaluate(src2, binds, r, annotations=ann)
            if a != b and not (a[0] == "error" and b[0] == "error"):
                if r == "C" and any(n[0] == "has" for n in ir.walk(node)):
                    continue  # the recorded compiled-has() finding can make either side an error
                report(f"{r}-scope-alpha-renaming-changes-outcome-{label}", {"src": src, "node": node, "env": {k: list(v) for k, v in env.items()}, "route": r, "alpha": label},
                       f"{src[:120]} -> {outcome.short(a)[:60]} but with fresh variable names {src2[:120]} -> {outcome.short(b)[:60]}")
                return


# --- macro variable vs package-qualified binding: which one wins is not determined by the statement (both of its rules apply);
#     what must hold is that both runner classes resolve it the same way ---------------------------------------

PKG_MACRO_EXPRS = ["[1, 2].map(x, x)", "[1, 2].exists(x, x == 100)", "l.map(x, x + 1)", "l.filter(x, x > 1)", "l.map(y, x)", "[[1]].map(x, x.map(x, x))", "l.all(x, l.exists(y, y == x))",
                   "[1, 2].map(v, v)", "l.exists_one(x, x == 2)", "x", "[x].map(x, x)"]
PKG_MACRO_BINDINGS: List[Dict[str, Any]] = [
    {"p.x": 100, "l": [1, 2]}, {"p.x": 100, "x": 5, "l": [1, 2]}, {"x": 5, "l": [1, 2]}, {"p.q.x": 7, "p.x": 100, "l": [2]}, {"p.y": 3, "x": 5, "l": [1, 2, 3]},
    {"p.v": 9, "l": []}, {"p.l": [7, 8], "l": [1, 2], "x": 0}, {"p.q.l": [5], "p.x": 1, "l": [1]},
]


def check_package_macro(run: common.Run, package: Optional[str], bi: int, ei: int, report) -> None:
    binds = {k: to_cel_any(v) for k, v in PKG_MACRO_BINDINGS[bi].items()}
    expr = PKG_MACRO_EXPRS[ei]
    run.tick()
    oi = cel.evaluate(expr, binds, "I", package=package)
    oc = cel.evaluate(expr, binds, "C", package=package)
    if package and any(k.startswith(package.split(".")[0] + ".") for k in PKG_MACRO_BINDINGS[bi]):
        run.nt(("pkg-macro", package, bi, ei))
        run.event("package-macro-collision")
    vi = ("value", oi[2]) if oi[0] == "value" else oi
    vc = ("value", oc[2]) if oc[0] == "value" else oc
    if vi != vc:
        report("package-macro-runners-disagree", {"pkg_macro": True, "package": package, "bind": bi, "expr": ei, "src": expr, "bindings": PKG_MACRO_BINDINGS[bi]},
               f"package={package} {expr} with {PKG_MACRO_BINDINGS[bi]}: interpreter {str(vi)[:100]} compiled {str(vc)[:100]}")


def to_cel_any(v: Any) -> Any:
    if isinstance(v, list):
        return ct.ListType([to_cel_any(x) for x in v])
    return to_cel(v)


FIXED_SCOPING = [
    "[1, 2].map(x, x + y) + [x]", "[[1], [2]].map(x, x.map(x, x + 1))", "[[1], [2]].map(x, x.map(y, y + 1)) == [[2], [3]] && x == 5",
    "li.exists(x, li.all(y, x <= y)) || x == 5", "[x].map(x, x * 2)[0] + x", "[1].map(y, x) + [2].map(x, y)", "li.filter(x, x > y).map(y, y + x)",
    "[1, 2].exists_one(x, x == y) ? x : y", "ll.map(x, x.filter(x, x > 0)).map(y, size(y))", "[y].all(y, [y].all(y, y == y)) && y == 7",
    "[[x]].map(y, y.map(y, y + x)) + [[y]]", "li.map(x, li.map(y, x * 0 + y)).map(x, x)",
]


def _node(x):
    return tuple(_node(i) for i in x) if isinstance(x, (list, tuple)) else x


def replay(run: common.Run, case: dict, key: str = ""):
    problems = []
    rep = lambda k, c, d: problems.append((k, d))
    if case.get("pkg_macro"):
        check_package_macro(run, case["package"], case["bind"], case["expr"], rep)
    elif "ref" in case:
        check_resolution(run, case["bindings"], case["package"], case["ref"], case["annotate"], rep)
    else:
        check_scoping(run, _node(case["node"]), {k: (v[0], v[1]) for k, v in case["env"].items()}, rep)
    return problems


def campaign(run: common.Run) -> None:
    q = run.tier == "quick"

    def body_res(c):
        b, package, ref, annotate = c
        check_resolution(run, b, package, ref, annotate, run.hyp_fail)

    def body_scope(p):
        node, T, env = p
        check_scoping(run, node, env, run.hyp_fail)

    common.drive(run, body_res, {"c": random_bindings()}, 800 if q else 12000, seed_salt=1)
    common.drive(run, body_scope, {"p": gen.typed_program(4, ["bool", "int", "list<int>", "list<list<int>>", "list<string>"], SCOPE_KINDS, {"exclude": ("typeof", "matches", "conv")})},
                 1500 if q else 20000, seed_salt=2)
    # macros nested 2-3 deep whose inner bodies read the outer iteration variables; x and y are also bound at top level, so every level shadows something
    common.drive(run, body_scope, {"p": gen.nested_macro_program(SCOPE_KINDS)}, 500 if q else 8000, seed_salt=3)


def main(run: common.Run) -> None:
    from vf import tree2ir

    run.assumptions = [
        "not determined by the statement, skipped and counted: a reference that names only a namespace (longer names bound, no binding is a prefix of it), a package prefix that is itself bound to a value, "
        "a name declared (annotation) at one level and bound at another",
        "bound values are ints and maps of ints; 'declarations' = Environment annotations for the bound names",
        "macro scoping is judged against vf.refcel (lexical scoping)",
    ]
    for p in common.committed_replays(run.pid):
        doc = common.load_replay(p)
        for k, d in replay(run, doc["case"], doc.get("key", "")):
            run.fail(k, doc["case"], d)
        run.event("replayed")
    n = exhaustive_resolution(run, run.fail)
    run.extra["exhaustive_resolution_cases"] = n
    env = {"x": ("int", 5), "y": ("int", 7), "li": ("list<int>", [3, 8, 1]), "ll": ("list<list<int>>", [[1, -1], []])}
    for src in FIXED_SCOPING:
        node = tree2ir.parse(src)
        if node is None:
            raise common.HarnessError(f"fixed scoping program does not parse: {src}")
        check_scoping(run, _lit_node(node), env, run.fail)
    for package in (None, "p", "p.q"):
        for bi in range(len(PKG_MACRO_BINDINGS)):
            for ei in range(len(PKG_MACRO_EXPRS)):
                check_package_macro(run, package, bi, ei, run.fail)
    if run.tier == "quick":
        campaign(run)
    else:
        for s in common.run_sharded(run.pid, run.tier, run.seed, campaign, 16, RULE):
            run.merge(s)


def _lit_node(n: Tuple) -> Tuple:
    """tree2ir keeps literals as raw token text; turn integer tokens into typed literals so vf.refcel can evaluate them."""
    if n[0] == "raw" and n[1].lstrip("-").isdigit():
        return ("lit", "int", int(n[1]))
    if n[0] in ("lit", "var", "raw", "dotvar"):
        return n
    if n[0] == "un":
        return ("un", n[1], _lit_node(n[2]))
    if n[0] == "bin":
        return ("bin", n[1], _lit_node(n[2]), _lit_node(n[3]))
    if n[0] == "cond":
        return ("cond", _lit_node(n[1]), _lit_node(n[2]), _lit_node(n[3]))
    if n[0] == "index":
        return ("index", _lit_node(n[1]), _lit_node(n[2]))
    if n[0] in ("select", "has"):
        return (n[0], _lit_node(n[1]), n[2])
    if n[0] == "call":
        return ("call", n[1], tuple(_lit_node(x) for x in n[2]))
    if n[0] == "method":
        return ("method", _lit_node(n[1]), n[2], tuple(_lit_node(x) for x in n[3]))
    if n[0] == "macro":
        return ("macro", _lit_node(n[1]), n[2], n[3], _lit_node(n[4]))
    if n[0] == "list":
        return ("list", tuple(_lit_node(x) for x in n[1]))
    if n[0] == "paren":
        return ("paren", _lit_node(n[1]))
    raise ValueError(n)
