"""C04 — evaluation ends in a value or a CEL error, never another exception.

compile(any string) -> tree | CELParseError with (line, column) inside the text.
evaluate(any parsed expression, any activation) -> value | CELEvalError (renderable with str/repr), under both runners.
"""

from __future__ import annotations

from typing import Any, Dict, Optional, Tuple

from hypothesis import strategies as st

import celpy
from celpy.celparser import CELParseError
from celpy.evaluation import CELEvalError

from vf import cel, common, corpus, gen, ir, localize, progs

RULE = (
    "compile: arbitrary Unicode text, token soup over every CEL terminal (incl. unterminated strings/comments), corpus and generated expressions "
    "with 1-3 character-level mutations. evaluate: grammar-directed programs (every operator/member/index/macro/function applied to every value "
    "kind, depth <= 4) x generated activations, the conformance corpus verbatim and mutated; both runners; str()/repr() of every raised error. "
    "non-trivial = compile: text rejected, or accepted with >= 3 tokens; evaluate: the program parses and has >= 1 operator/function/macro. "
    "distinct by source text (+ bindings)."
)

CPU_BUDGET_S = 20.0  # per compile() of a bounded text; normal cost is about a millisecond
FUZZ_RUNS = int(__import__("os").environ.get("VERIF_FUZZ_RUNS", "15000"))

TOKENS = ["1", "0x1F", "1u", "1.5", "1e3", ".5", "'a'", '"b"', "'''c'''", "r'\\d'", "b'x'", "true", "false", "null", "x", "y.z", "_a1", "in", "has", "size",
          "(", ")", "[", "]", "{", "}", ".", ",", ":", "?", "+", "-", "*", "/", "%", "!", "<", "<=", ">", ">=", "==", "!=", "&&", "||", "=", "&", "|", "//c\n",
          "'", '"', "'''", '"""', "\\", "\n", " ", "\t", "for", "as", "while", "é", "\U0001f431", "\x00", "0x", "1.e", "9223372036854775808", "..", "?:"]


def token_soup():
    return st.lists(st.sampled_from(TOKENS), max_size=12).map(lambda l: "".join(l)) | st.lists(st.sampled_from(TOKENS), max_size=12).map(lambda l: " ".join(l))


@st.composite
def char_mutated(draw, base) -> str:
    s = draw(base)
    for _ in range(draw(st.integers(1, 3))):
        if not s:
            break
        i = draw(st.integers(0, len(s) - 1))
        k = draw(st.integers(0, 3))
        if k == 0:
            s = s[:i] + s[i + 1:]
        elif k == 1:
            s = s[:i] + s[i] + s[i:]
        elif k == 2 and i + 1 < len(s):
            s = s[:i] + s[i + 1] + s[i] + s[i + 2:]
        else:
            s = s[:i] + draw(st.sampled_from(list("()[]{}.,:?+-*/%!<>=&|'\"\\\n #0aux"))) + s[i:]
    return s


def check_compile(run: common.Run, text: str, report) -> None:
    run.tick()
    run.event("compile")
    e = cel.env("I")
    try:
        with common.cpu_budget(CPU_BUDGET_S):
            tree = e.compile(text)
        ntok = sum(1 for _ in tree.scan_values(lambda v: True))
        if ntok >= 3:
            run.nt(("c", text))
        run.event("compile-accepted")
        return
    except CELParseError as ex:
        run.nt(("c", text))
        run.event("compile-rejected")
        lines = text.split("\n")
        line, col = ex.line, ex.column
        ok = isinstance(line, int) and isinstance(col, int) and not isinstance(line, bool) and 1 <= line <= max(1, len(lines)) and 1 <= col <= len(lines[line - 1]) + 1
        if not ok:
            why = "none" if (line is None or col is None) else "outside-text"
            report(f"parse-error-position-{why}", {"text": text}, f"line={line!r} column={col!r} for text of {len(lines)} line(s)")
        try:
            str(ex), repr(ex)
        except Exception as ex2:
            report(f"parse-error-render-{progs.crash_bucket(ex2)}", {"text": text}, f"{type(ex2).__name__}: {ex2}")
    except common.CpuBudgetExceeded:
        report(f"compile-does-not-end-within-{int(CPU_BUDGET_S)}s-cpu", {"text": text}, f"compile() of a {len(text)}-character text used more than {CPU_BUDGET_S} s of CPU time")
    except RecursionError:
        report("compile-RecursionError", {"text": text}, "RecursionError")
    except Exception as ex:
        report(f"compile-crash-{progs.crash_bucket(ex)}", {"text": text}, f"{type(ex).__name__}: {ex}")
    run.sample({"compile": text[:100]}, bucket="compile")


def unterminated_literals(run: common.Run, report) -> None:
    """Literals that are never closed, holding n escapes: the lexer must reject them in time that does not explode with n. Judged by the ratio of CPU
    times at n = 12 and n = 22 (an exponential lexer shows a factor of about a thousand, a linear one about two) with an absolute floor, never by a wall clock."""
    import time

    e = cel.env("I")

    def cost(text: str) -> float:
        best = 1e9
        for _ in range(2):
            t0 = time.process_time()
            try:
                with common.cpu_budget(CPU_BUDGET_S):
                    e.compile(text)
            except CELParseError:
                pass
            except common.CpuBudgetExceeded:
                return CPU_BUDGET_S
            except Exception:
                pass
            best = min(best, time.process_time() - t0)
        return best

    for quote in ['"', "'", '"""', "'''"]:
        for prefix in ["", "r", "b", "br"]:
            for piece in ["\\377", "\\x41", "\\n", "\\\\", "\\u0041", "\\U00000041", "\\q", "\\" + quote[0], "\\" + ("'" if quote[0] == '"' else '"'), "a"]:
                run.tick()
                run.event("unterminated-literal-family")
                t12 = cost("x + " + prefix + quote + piece * 12 + " y")
                t22 = cost("x + " + prefix + quote + piece * 22 + " y")
                run.nt(("unterminated", quote, prefix, piece))
                if t22 > 0.25 and t22 > 100 * max(t12, 1e-4):
                    report("compile-time-explodes-with-the-number-of-escapes-in-an-unterminated-literal", {"text": "x + " + prefix + quote + piece * 40 + " y"},
                           f"{prefix}{quote}{piece}...: {t12:.4f} s of CPU for 12 escapes, {t22:.4f} s for 22")
                    return


DEEP_SHAPES = {
    "parens": lambda n: "(" * n + "1" + ")" * n,
    "lists": lambda n: "[" * n + "1" + "]" * n,
    "maps": lambda n: "{'a': " * n + "1" + "}" * n,
    "calls": lambda n: "dyn(" * n + "1" + ")" * n,
    "not": lambda n: "!" * n + "true",
    "neg": lambda n: "- " * n + "1",
    "index": lambda n: "[" * n + "1" + "]" * n + "[0]" * n,
    "select": lambda n: "{'a': " * n + "1" + "}" * n + ".a" * n,
    "plus": lambda n: "1" + " + 1" * n,
    "and": lambda n: "true" + " && true" * n,
    "ternary": lambda n: "true ? " * n + "1" + " : 0" * n,
    "macro": lambda n: "".join(f"[1].map(v{i}, " for i in range(n)) + "1" + ")" * n,
    "method": lambda n: "'a'" + ".size().string()" * n if False else "[1]" + ".map(x, x)" * n,
}


def deep_nesting(run: common.Run, report) -> None:
    """Each construct nested / chained 12 and 32 deep (what every CEL implementation must support) must end in a value or a CEL error under both runners;
    100 and 300 deep it must still not end in another exception - where it does (RecursionError, Python's own limits on generated code) the key names the
    exception, so that a recorded limitation and a new failure are told apart."""
    for shape, build in DEEP_SHAPES.items():
        for depth in (12, 32, 100, 300):
            src = build(depth)
            for r in ("I", "C"):
                run.tick()
                run.event(f"deep:{shape}")
                kind, bucket = eval_once(src, {}, r)
                run.nt(("deep", shape, depth, r))
                if kind == "crash":
                    exc = bucket.split("@")[0].split("-")[-1]
                    where = "within-32" if depth <= 32 else "beyond-32"
                    report(f"deep-nesting-{where}-{r}-{exc}", {"src": src if len(src) < 400 else None, "shape": shape, "depth": depth, "route": r}, f"{shape} x {depth} under {r}: {bucket}")


def eval_once(src: str, binds: Dict[str, Any], runner: str) -> Tuple[str, str]:
    """('value'|'error'|'parse'|'crash', bucket)"""
    try:
        with common.cpu_budget(3 * CPU_BUDGET_S):
            o, raw = cel.evaluate(src, binds, runner, want_value=True)
    except common.CpuBudgetExceeded:
        return "crash", f"does-not-end-within-{int(3 * CPU_BUDGET_S)}s-cpu"
    if o[0] == "value":
        return "value", ""
    if o[0] == "parse_error":
        return "parse", ""
    if o[0] == "error":
        try:
            s, r = str(raw), repr(raw)
            if not isinstance(s, str) or not isinstance(r, str):
                return "crash", "render-not-a-string"
        except Exception as ex2:
            return "crash", f"render-error-{progs.crash_bucket(ex2)}"
        return "error", ""
    return "crash", f"{o[2]}-{progs.crash_bucket(raw)}"


def check_eval_src(run: common.Run, src: str, binds: Dict[str, Any], case: dict, report, node: Optional[Tuple] = None) -> None:
    feats = None
    if node is None:
        feats = progs.parse_features(src)
        if feats is None:
            run.event("eval-skipped-unparseable")
            return
        ood = progs.out_of_domain(feats)
        if ood:
            run.event("eval-skipped-out-of-domain:" + ood)
            return
    run.tick()
    run.event("evaluate")
    if node is None or node[0] not in ("lit", "var"):
        run.nt(("e", src, repr(sorted(case.get("env", {}).items()))))
    for r in ("I", "C"):
        kind, bucket = eval_once(src, binds, r)
        run.event(f"outcome-{kind}")
        if kind == "crash":
            where = ""
            if node is not None:
                c = localize.culprit(node, lambda sub, r=r: eval_once(ir.render(sub), binds, r)[0] == "crash")
                where = "-at-" + localize.describe(c)
                case = dict(case, culprit=ir.render(c))
            report(f"{r}-{bucket}{where}", dict(case, route=r), f"{src[:200]} -> {bucket}")
    run.sample({"evaluate": src[:120]}, bucket="ev" + src[:1])


def check_program(run: common.Run, node: Tuple, env: Dict[str, Tuple[str, Any]], report) -> None:
    src = ir.render(node)
    for f in ir.features(node):
        if f.startswith(("macro:", "op:")):
            run.event(f)
    check_eval_src(run, src, gen.bind_env(env), {"src": src, "node": node, "env": {k: list(v) for k, v in env.items()}}, report, node=node)


def _node(x):
    return tuple(_node(i) for i in x) if isinstance(x, (list, tuple)) else x


def replay(run: common.Run, case: dict, key: str = ""):
    problems = []
    rep = lambda k, c, d: problems.append((k, d))
    if "package" in case:
        package_pass(run, rep)
    elif "shape" in case:
        deep_nesting(run, rep)
    elif "text" in case:
        check_compile(run, case["text"], rep)
    elif "node" in case:
        check_program(run, _node(case["node"]), {k: (v[0], v[1]) for k, v in case["env"].items()}, rep)
    else:
        check_eval_src(run, case["src"], _fuzz_binds(case), {"src": case["src"]}, rep)
    return problems


def _fuzz_binds(case: dict) -> Dict[str, Any]:
    """Findings of the coverage-guided campaign name one of its fixed activations."""
    if "fuzz_activation" not in case:
        return {}
    from vf import fuzzdata

    return fuzzdata.activations()[case["fuzz_activation"]]


def corpus_pass(run: common.Run, report, shard: Optional[Tuple[int, int]] = None) -> None:
    for i, e in enumerate(corpus.expressions()):
        if shard and i >= len(corpus.EDGE) and i % shard[1] != shard[0]:
            continue
        check_compile(run, e, report)
        check_eval_src(run, e, {}, {"src": e}, report)
        run.event("corpus")


def package_pass(run: common.Run, report) -> None:
    """Environments with a package, including activations that bind the package name (or a prefix of it) to a primitive or a map."""
    from celpy import celtypes as ct

    bindsets = [{"p": ct.IntType(5)}, {"p": ct.StringType("s"), "x": ct.IntType(1)}, {"p": ct.MapType({ct.StringType("x"): ct.IntType(2)})}, {"p.q": ct.IntType(7)},
                {"p": ct.MapType({ct.StringType("q"): ct.MapType({ct.StringType("x"): ct.IntType(3)})})}, {"p.x": ct.IntType(1), "x": ct.IntType(2)}, {"p": None}, {"p": ct.ListType([ct.IntType(1)])}, {}]
    exprs = ["x", "p", "p.x", "q", "q.x", ".x", ".p", "x + 1", "[1].map(x, x)", "[1].map(p, p)", "has(p.x)", "p.q.x", "size(p)", "name"]
    for package in ("p", "p.q", "jq"):
        for bi, b in enumerate(bindsets):
            for e in exprs:
                run.tick()
                run.nt(("pkg", package, bi, e))
                run.event("package-activation")
                for r in ("I", "C"):
                    o, raw = cel.evaluate(e, b, r, package=package, want_value=True)
                    if o[0] == "crash":
                        report(f"{r}-{o[2]}-{progs.crash_bucket(raw)}-package-activation", {"src": e, "package": package, "bindset": bi, "route": r}, f"package={package} {e} with {list(b)}: {o}")


def campaign(run: common.Run) -> None:
    q = run.tier == "quick"

    def body_text(t):
        check_compile(run, t, run.hyp_fail)

    def body_prog(p):
        node, env = p
        check_program(run, node, env, run.hyp_fail)

    def body_mut(s):
        check_compile(run, s, run.hyp_fail)
        check_eval_src(run, s, {}, {"src": s}, run.hyp_fail)

    common.drive(run, body_text, {"t": st.text(max_size=30)}, 400 if q else 6000, seed_salt=1)
    common.drive(run, body_text, {"t": token_soup()}, 1200 if q else 15000, seed_salt=2)
    common.drive(run, body_text, {"t": char_mutated(progs.corpus_expr())}, 800 if q else 10000, seed_salt=3)
    common.drive(run, body_prog, {"p": gen.any_program(4)}, 4500 if q else 30000, seed_salt=4)
    common.drive(run, body_mut, {"s": progs.mutated_corpus()}, 500 if q else 8000, seed_salt=5)


def main(run: common.Run) -> None:
    run.assumptions = [
        "out of domain (counted, not evaluated): macros whose iteration variable is not an identifier, has() of a non-selection, the library's non-standard reduce()/min() macros",
        "CELUnsupportedError / CELSyntaxError are not CELEvalError: if they escape they are reported like any other exception",
        "program depth <= 4 for generated programs (well inside CEL's minimum limits); corpus expressions as they are",
        "'ends': every compile() runs under a budget of 20 s of CPU time (ITIMER_VIRTUAL: load does not count) and every evaluation under 60 s, four orders of magnitude above the "
        "normal cost for texts of this size; exceeding it is reported as not ending. The unterminated-literal family is judged by the ratio of CPU times at 12 and 22 escapes (> 100 with a "
        "floor of 0.25 s), never by a wall clock",
    ]
    for p in common.committed_replays(run.pid):
        doc = common.load_replay(p)
        for k, d in replay(run, doc["case"], doc.get("key", "")):
            run.fail(k, doc["case"], d)
        run.event("replayed")
    package_pass(run, run.fail)
    unterminated_literals(run, run.fail)
    deep_nesting(run, run.fail)
    if run.tier == "quick":
        corpus_pass(run, run.fail, shard=(run.seed % 2, 2))  # half of the corpus per run (seed parity); thorough runs all of it
        campaign(run)
    else:
        corpus_pass(run, run.fail)
        for s in common.run_sharded(run.pid, run.tier, run.seed, campaign, 16, RULE):
            run.merge(s)
        # coverage-guided supplement: token-level and raw-text inputs mutated by libFuzzer under coverage feedback from the celpy package
        run.extra["coverage_guided"] = common.fuzz_campaign(run, replay, workers=16, runs=FUZZ_RUNS)
