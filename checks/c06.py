"""C06 — parser implements CEL precedence and associativity; AST dump round-trips.

(1) every pair (quick) / triple (thorough) of adjacent operators, as IR trees over identifier operands: the minimal-parenthesis text (CEL's
    precedence table is built into the printer), the fully parenthesised text and the tree itself must be the same expression after parsing
    (compared through vf.tree2ir, parenthesis nodes removed);
(2) generated programs: same; true/false/null are literals; re-joining the lexer's own tokens with arbitrary whitespace / comments is insignificant;
(3) parse(tree_dump(parse(s))) == parse(s) modulo parentheses, for generated programs and the corpus.
"""

from __future__ import annotations

import itertools
from typing import Any, List, Optional, Tuple

from hypothesis import strategies as st

from celpy.celparser import CELParser, tree_dump

from vf import cel, common, corpus, gen, ir, localize, tree2ir

RULE = (
    "all IR trees with 2 (quick) or 3 (thorough, sharded) operator nodes drawn from the 15 binary operators, ! -, ?:, .f, .m(x), [i], f(x) over identifier "
    "operands (true/false/null in some leaves); generated well-typed and ill-typed programs up to 40 nodes; lexer token streams re-joined with random "
    "whitespace and // comments; dump round trip on all of those and on the conformance corpus. non-trivial = >= 2 operators of different precedence or the "
    "same non-commutative level; for the dump: list/map/message literal, call with 0 or >= 2 arguments, or a unary chain. distinct by source text."
)

BIN = ["||", "&&", "<", "<=", ">", ">=", "==", "!=", "in", "+", "-", "*", "/", "%"]
KINDS = [("bin", op) for op in BIN] + [("un", "!"), ("un", "-"), ("cond",), ("select",), ("method",), ("index",), ("call",)]
ARITY = {"bin": 2, "un": 1, "cond": 3, "select": 1, "method": 2, "index": 2, "call": 1}


def build(kind: Tuple, kids: List[Tuple]) -> Tuple:
    k = kind[0]
    if k == "bin":
        return ("bin", kind[1], kids[0], kids[1])
    if k == "un":
        return ("un", kind[1], kids[0])
    if k == "cond":
        return ("cond", kids[0], kids[1], kids[2])
    if k == "select":
        return ("select", kids[0], "f")
    if k == "method":
        return ("method", kids[0], "m", (kids[1],))
    if k == "index":
        return ("index", kids[0], kids[1])
    return ("call", "g", (kids[0],))


def trees(n_ops: int, memo: dict = {}) -> List[Tuple]:
    """All shapes with exactly n_ops operator nodes; leaves are ("leaf",)."""
    if n_ops in memo:
        return memo[n_ops]
    if n_ops == 0:
        out = [("leaf",)]
    else:
        out = []
        for kind in KINDS:
            ar = ARITY[kind[0]]
            for split in _splits(n_ops - 1, ar):
                for kids in itertools.product(*[trees(s) for s in split]):
                    out.append(build(kind, list(kids)))
    memo[n_ops] = out
    return out


def _splits(total: int, parts: int):
    if parts == 1:
        yield (total,)
        return
    for i in range(total + 1):
        for rest in _splits(total - i, parts - 1):
            yield (i,) + rest


LEAVES = ["a", "b", "c", "d", "e", "h", "k", "p", "q", "r"]
KEYWORD_LEAVES = [("raw", "true", ir.MEMBER), ("raw", "false", ir.MEMBER), ("raw", "null", ir.MEMBER)]


def fill(t: Tuple, counter: List[int], kw: int) -> Tuple:
    """Replace ("leaf",) by identifiers (every kw-th leaf by a keyword literal when kw > 0)."""
    if t == ("leaf",):
        i = counter[0]
        counter[0] += 1
        if kw and i % 3 == kw % 3:
            return KEYWORD_LEAVES[i % 3]
        return ("var", LEAVES[i % len(LEAVES)])
    if t[0] == "bin":
        return ("bin", t[1], fill(t[2], counter, kw), fill(t[3], counter, kw))
    if t[0] == "un":
        return ("un", t[1], fill(t[2], counter, kw))
    if t[0] == "cond":
        return ("cond", fill(t[1], counter, kw), fill(t[2], counter, kw), fill(t[3], counter, kw))
    if t[0] == "select":
        return ("select", fill(t[1], counter, kw), t[2])
    if t[0] == "method":
        return ("method", fill(t[1], counter, kw), t[2], tuple(fill(x, counter, kw) for x in t[3]))
    if t[0] == "index":
        return ("index", fill(t[1], counter, kw), fill(t[2], counter, kw))
    if t[0] == "call":
        return ("call", t[1], tuple(fill(x, counter, kw) for x in t[2]))
    raise ValueError(t)


def norm(n: Optional[Tuple]) -> Any:
    """Normal form for comparison: parenthesis nodes removed; literals by token text."""
    if n is None:
        return None
    t = n[0]
    if t == "paren":
        return norm(n[1])
    if t == "lit":
        return ("raw", ir.lit_text(n[1], n[2]))
    if t == "raw":
        return ("raw", n[1])
    if t in ("var", "dotvar"):
        return n
    if t == "un":
        a = norm(n[2])
        if n[1] == "-" and a[0] == "raw" and a[1][:1].isdigit() or (n[1] == "-" and a[0] == "raw" and a[1][:1] == "." and a[1][1:2].isdigit()):
            return ("raw", "-" + a[1])  # '-1' is one signed-literal token in this grammar: same denotation as -(1)
        return ("un", n[1], a)
    if t == "bin":
        return ("bin", n[1], norm(n[2]), norm(n[3]))
    if t == "cond":
        return ("cond", norm(n[1]), norm(n[2]), norm(n[3]))
    if t == "index":
        return ("index", norm(n[1]), norm(n[2]))
    if t in ("select", "has"):
        return (t, norm(n[1]), n[2])
    if t in ("call", "dotcall"):
        return (t, n[1], tuple(norm(x) for x in n[2]))
    if t == "method":
        return ("method", norm(n[1]), n[2], tuple(norm(x) for x in n[3]))
    if t == "macro":
        # a macro call is, syntactically, a method call with (ident, expr) arguments
        return ("method", norm(n[1]), n[2], (("var", n[3]), norm(n[4])))
    if t == "list":
        return ("list", tuple(norm(x) for x in n[1]))
    if t == "map":
        return ("map", tuple((norm(k), norm(v)) for k, v in n[1]))
    if t == "msg":
        return ("msg", norm(n[1]), tuple((k, norm(v)) for k, v in n[2]))
    raise ValueError(n)


def count_ops(n: Tuple) -> int:
    return sum(1 for x in ir.walk(n) if x[0] in ("bin", "un", "cond", "select", "method", "index", "call", "macro", "has"))


def has_keyword_ident(n: Any) -> bool:
    if isinstance(n, tuple):
        if n and n[0] in ("var", "dotvar") and n[1] in ("true", "false", "null"):
            return True
        return any(has_keyword_ident(x) for x in n)
    return False


def op_sig(t: Tuple) -> str:
    """Operators of the two outermost levels (root and its operator children): a stable, small root-cause signature."""
    def d(x):
        return localize.describe(x) if x[0] in ("bin", "un") else x[0]

    kids = [d(c) for c in ir.children(t) if c[0] not in ("var", "raw", "lit", "leaf")]
    return d(t) + ("(" + ",".join(kids) + ")" if kids else "")


def check_tree(run: common.Run, t: Tuple, report, sig: Optional[str] = None) -> None:
    """Precedence/associativity: minimal-parenthesis text, fully parenthesised text and the tree itself agree."""
    want = norm(t)
    run.tick()
    texts = {m: ir.render(t, m) for m in ("min", "full")}
    if count_ops(t) >= 2:
        run.nt(texts["min"])
        run.event("nontrivial")
    case = {"tree": t, "min": texts["min"], "full": texts["full"]}
    for m, text in texts.items():
        got = tree2ir.parse(text)
        if got is None:
            report(f"prec-{m}-text-rejected[{sig or op_sig(t)}]", case, f"{text!r} does not parse")
            continue
        g = norm(got)
        if has_keyword_ident(g):
            report("keyword-parsed-as-identifier", case, f"{text!r} -> {g}")
        if g != want:
            report(f"prec-{m}-tree-differs[{sig or op_sig(t)}]", case, f"{text!r} parsed as {ir.render(got, 'full')!r}, expected {ir.render(t, 'full')!r}")
    run.sample({"min": texts["min"], "full": texts["full"]}, bucket=op_sig(t)[:12])


SEPS = [" ", "  ", "\n", "\t", "\r\n", " //c\n", "\n// x && y || (\n", "\f", " \n\t "]


def check_whitespace(run: common.Run, src: str, seps: List[int], report) -> None:
    """Re-join the lexer's own token sequence with arbitrary separators: same tree."""
    base = tree2ir.parse(src)
    if base is None:
        return
    cel.env("I")
    try:
        toks = [str(tk) for tk in CELParser.CEL_PARSER.lex(src)]
    except Exception:
        return
    if len(toks) < 2:
        return
    run.tick()
    def can_abut(left: str, right: str) -> bool:
        """May the two tokens be written with nothing between them without becoming other tokens? (conservative: one side must be a bracket, comma,
        colon or question mark - or the left an identifier/keyword and the right an opening bracket, or the left a closing bracket)"""
        safe = set("()[]{},:?")
        if left[-1] in safe and right[0] in safe:
            return True
        if right[0] in "([{" and (left[-1].isalnum() or left[-1] == "_") and not left[:1].isdigit():
            return True  # f( , x[ , in[ , in(
        if left[-1] in ")]}" and right[0] not in "\"'":
            return True
        if left[-1] in "([{,:?" and right[0] not in "-.":
            return True
        return False

    parts = []
    for i, tk in enumerate(toks):
        sep = SEPS[seps[i % len(seps)] % len(SEPS)]
        # every third gap (by the drawn number) is closed up entirely where the two tokens allow it
        if seps[i % len(seps)] % 3 == 0 and i + 1 < len(toks) and can_abut(tk, toks[i + 1]):
            sep = ""
            run.event("whitespace-gap-closed")
        parts.append(tk + sep)
    text = "".join(parts)
    if any("//" in SEPS[s % len(SEPS)] for s in seps) or "\n" in text:
        run.nt(("ws", text))
    run.event("whitespace")
    got = tree2ir.parse(text)
    if got is None or norm(got) != norm(base):
        report("whitespace-or-comment-significant", {"src": src, "seps": seps, "rejoined": text}, f"{text!r} parsed differently from {src!r}")
    # the converse: blanks INSIDE a string / bytes literal are significant. The same token sequence with one blank, then with two blanks, put inside each of
    # its literals must parse to trees holding exactly those literals (the second right after the first, in the same process)
    import re as _re

    def with_blanks(tk: str, blanks: str) -> str:
        m = _re.match(r"([rRbB]{0,2})(\"\"\"|'''|\"|')", tk)
        return tk if not m else tk[: m.end()] + blanks + tk[m.end():]

    if any(with_blanks(tk, " ") != tk for tk in toks):
        for blanks in (" ", "  ", "\t "):
            changed = [with_blanks(tk, blanks) for tk in toks]
            text2 = " ".join(changed)
            run.tick()
            run.event("blanks-put-inside-literals")
            try:
                tree2 = cel.env("I").compile(text2)
                lits = sorted(str(t) for t in tree2.scan_values(lambda v: getattr(v, "type", "") in ("STRING_LIT", "MLSTRING_LIT", "BYTES_LIT")))
            except Exception:
                continue
            want = sorted(tk for tk, orig in zip(changed, toks) if tk != orig)
            if lits != want:
                report("blanks-inside-a-literal-not-preserved", {"src": src, "seps": seps, "changed": text2}, f"{text2!r}: literals in the tree {lits[:3]} but written {want[:3]}")
                break
    run.sample({"rejoined": text[:100]}, bucket="ws")


def dump_interesting(n: Tuple) -> bool:
    for x in ir.walk(n):
        if x[0] in ("list", "map", "msg"):
            return True
        if x[0] in ("call", "dotcall") and len(x[2]) != 1:
            return True
        if x[0] == "method" and len(x[3]) != 1:
            return True
        if x[0] == "un" and x[2][0] == "un":
            return True
    return False


def has_empty_list(n: Tuple) -> bool:
    return any(x[0] == "list" and len(x[1]) == 0 for x in ir.walk(n))


def check_dump(run: common.Run, src: str, report) -> None:
    """parse(tree_dump(parse(s))) == parse(s) modulo parenthesis nodes."""
    e = cel.env("I")
    try:
        tree = e.compile(src)
    except Exception:
        return
    base = tree2ir.parse(src)
    if base is None:
        return
    run.tick()
    run.event("dump")
    if dump_interesting(base):
        run.nt(("dump", src))
        run.event("dump-nontrivial")
    case = {"dump_src": src}
    try:
        text = tree_dump(tree)
    except Exception as ex:
        key = f"dump-raises-{type(ex).__name__}"
        report(key, case, f"tree_dump({src!r}) raised {type(ex).__name__}: {ex}")
        return
    got = tree2ir.parse(text)
    if got is None or norm(got) != norm(base):
        b = norm(base)

        def bad(sub: Tuple) -> bool:
            s = ir.render(sub)
            try:
                tt = tree_dump(cel.env("I").compile(s))
            except Exception:
                return True
            g = tree2ir.parse(tt)
            return g is None or norm(g) != norm(sub)

        c = localize.culprit(base, bad, children_fn=ir.children)
        kind = localize.describe(c)
        if c[0] == "list" and len(c[1]) == 0:
            kind = "empty-list-literal"
        elif c[0] == "msg":
            kind = f"message-literal-{len(c[2])}-fields"
        report(f"dump-roundtrip-{kind}", dict(case, dumped=text, culprit=ir.render(c)), f"{src!r} dumped as {text!r}")
    run.sample({"src": src[:80], "dump": text[:80]}, bucket="dump")


def _node(x):
    return tuple(_node(i) for i in x) if isinstance(x, (list, tuple)) else x


def replay(run: common.Run, case: dict, key: str = ""):
    problems = []
    rep = lambda k, c, d: problems.append((k, d))
    if "tree" in case:
        check_tree(run, _node(case["tree"]), rep)
    elif "seps" in case:
        check_whitespace(run, case["src"], case["seps"], rep)
    else:
        check_dump(run, case["dump_src"], rep)
    return problems


def exhaustive(run: common.Run, n_ops: int, report, shard: Optional[Tuple[int, int]] = None) -> int:
    n = 0
    for i, shape in enumerate(trees(n_ops)):
        if shard and i % shard[1] != shard[0]:
            continue
        for kw in (0, 1 + i % 3) if n_ops <= 2 else (0,):
            t = fill(shape, [0], kw)
            check_tree(run, t, report)
            n += 1
            if n_ops <= 2 or i % 7 == 0:
                check_dump(run, ir.render(t, "min"), report)
    return n


def shard_campaign(run: common.Run) -> None:
    shard = (run.seed % 1000 - 1) % 16
    n = exhaustive(run, 3, run.fail, shard=(shard, 16))
    run.extra["exhaustive_triples"] = n
    campaign(run)


def campaign(run: common.Run) -> None:
    q = run.tier == "quick"

    def body_prog(p):
        node = p[0]
        if ir.size(node) > 40:
            return
        check_tree(run, node, run.hyp_fail)
        check_dump(run, ir.render(node, "min"), run.hyp_fail)

    def body_ws(p, seps):
        check_whitespace(run, ir.render(p[0], "min"), seps, run.hyp_fail)

    def body_ws_corpus(s, seps):
        check_whitespace(run, s, seps, run.hyp_fail)

    def body_triple(i, kw):
        shapes = trees(3)
        check_tree(run, fill(shapes[i % len(shapes)], [0], kw), run.hyp_fail)

    common.drive(run, body_prog, {"p": gen.typed_program(4)}, 600 if q else 8000, seed_salt=1)
    common.drive(run, body_prog, {"p": gen.any_program(4)}, 600 if q else 8000, seed_salt=2)
    common.drive(run, body_ws, {"p": gen.any_program(3), "seps": st.lists(st.integers(0, 20), min_size=1, max_size=6)}, 400 if q else 5000, seed_salt=3)
    common.drive(run, body_ws_corpus, {"s": st.sampled_from(corpus.expressions()), "seps": st.lists(st.integers(0, 20), min_size=1, max_size=6)}, 300 if q else 5000, seed_salt=4)
    if q:
        common.drive(run, body_triple, {"i": st.integers(0, 10**6), "kw": st.integers(0, 3)}, 1500, seed_salt=5)


def main(run: common.Run) -> None:
    run.assumptions = [
        "trees are compared through vf.tree2ir (lark tree -> IR) with parenthesis nodes removed; the minimal-parenthesis printer embodies the CEL precedence table",
        "'- 1' and '-1' are different token sequences in this grammar (signed INT_LIT, cel-spec issue 126): separators are only inserted between tokens the lexer produced",
        "reserved words and true/false/null after '.' are not asserted",
        "unary minus is applied to identifiers / parenthesised operands in the operator tables (so the signed-literal rule does not interfere)",
    ]
    for p in common.committed_replays(run.pid):
        doc = common.load_replay(p)
        for k, d in replay(run, doc["case"], doc.get("key", "")):
            run.fail(k, doc["case"], d)
        run.event("replayed")
    # corpus: dump round trip on every expression (cheap: parse + dump + parse)
    for i, e in enumerate(corpus.expressions()):
        if run.tier == "quick" and i >= len(corpus.EDGE) and i % 2 != run.seed % 2:
            continue
        check_dump(run, e, run.fail)
    n = exhaustive(run, 1, run.fail) + exhaustive(run, 2, run.fail)
    run.extra["exhaustive_singles_and_pairs"] = n
    if run.tier == "quick":
        campaign(run)
        run.extra["exhaustive_bound"] = "all trees with <= 2 operator nodes (22 operator kinds); triples sampled"
    else:
        for s in common.run_sharded(run.pid, run.tier, run.seed, shard_campaign, 16, RULE):
            run.merge(s)
        run.extra["exhaustive_bound"] = "all trees with <= 3 operator nodes (22 operator kinds), sharded 16 ways"
