"""C16 — concurrent evaluations in separate environments do not interfere.

2-4 threads, each with its OWN Environment / program / bindings (the documented contract). Interleavings are generated: a deterministic
scheduler (vf.sched) lets exactly one thread run at a time and preempts only at Python line events inside celpy/*.py and the transpiled
"<string>" code, at step indexes drawn by Hypothesis. Oracle: every thread's list of outcomes equals the list it produces when run alone.
Thorough adds every single-preemption schedule for fixed program pairs and a free-running stress.
"""

from __future__ import annotations

import sys
import threading
from typing import Any, Dict, List, Optional, Tuple

from hypothesis import strategies as st

import celpy
from celpy import celtypes as ct
from celpy.evaluation import CELEvalError

from vf import common, outcome, sched

RULE = (
    "2-4 threads, each creating its own Environment (runner class per thread, mixed included), compiling its own program from a pool using ?:, ||, macros and "
    "identifier lookups and a host function tag() of which every thread supplies its own implementation, evaluating it 2-4 times with its own (thread-specific) bindings; schedules = up to 3 (quick) / 5 (thorough) preemptions at generated "
    "line-step indexes with generated targets; double preemptions (A suspended inside a state-touching function, B run into one, A finishes, B continues) for fixed pairs incl. deeply "
    "nested programs; every run starts from the host's default recursion limit; thorough: every single-preemption point for fixed pairs, and a free-running stress (switch interval 1 us). "
    "non-trivial = at least one preemption took effect while the preempted thread was inside the library and another thread then ran library lines. "
    "distinct by (thread programs, schedule)."
)

PROGRAMS = [
    "x > 0 ? x + 1 : x - 1",
    "x > 0 || 1 / 0 == 1",
    "[1, 2, 3].map(i, i * x)",
    "x + y",
    "size([x, y, x]) + x",
    "x > y && y > 0 || x == y",
    "[x, y].exists(i, i > 5) ? 'big' : 'small'",
    "{'k': x}.k + y",
    "x > 0 ? (y > 0 ? x : y) : (y > 0 ? y : x)",
    "[1, 2].filter(i, i < x).map(i, i + y)",
    "has({'a': x}.a) && x != y",
    "string(x) + string(y)",
    "['cache-1', 'db-2', 'cache-x'].exists(w, w.matches('^cache-[0-9]+$')) ? x : y",
    "['ab', 'ba'].filter(w, w.matches('^a')).size() + x",
    "string(x).matches('^1+0*$') && 'zz'.matches('z$')",
    "['db-7'].all(w, w.matches('^db-[0-9]$')) || x > y",
    "timestamp('2009-02-13T23:31:30Z').getHours('+01:00') + x",
    "duration('90s') + duration('1h') > duration('1m') ? x : y",
    "int(string(x)) + size(string(y))",
    # deeply nested: needs more Python frames than the interpreter's default recursion limit allows (the library raises the limit itself)
    "(" * 45 + "x + y" + ")" * 45,
    "[" * 30 + "x" + "]" * 30 + " == " + "[" * 30 + "y" + "]" * 30,
    # host functions: every thread supplies its OWN implementation of tag() to its own program (threads 0-2 as a list, thread 3 as a dict)
    "tag(x) + y",
    "x.tag() > 0 ? tag(y) : tag(x)",
    "[x, y].map(i, tag(i))",
]
DEEP = (19, 20)
HOST_RECURSION_LIMIT = 1000  # CPython's default: what a host application that never touched it has


class host_limit:
    """Every scheduled / stand-alone / stress run starts from the host's default recursion limit (the check's own process runs with a higher one),
    so that anything the library does to this process-wide setting happens inside the run, where the scheduler can interleave it."""

    def __enter__(self):
        self.previous = sys.getrecursionlimit()
        sys.setrecursionlimit(HOST_RECURSION_LIMIT)

    def __exit__(self, *a):
        sys.setrecursionlimit(self.previous)
        return False

RUNNERS = {"I": celpy.InterpretedRunner, "C": celpy.CompiledRunner}


def bindings_for(thread: int, k: int) -> Dict[str, Any]:
    """Thread-specific values, so that cross-talk shows up in the result."""
    base = 10 ** (thread + 1)
    return {"x": ct.IntType(base + k), "y": ct.IntType((base * 7 + k * 3) % 11 - 5)}


def host_functions(thread: int) -> Any:
    """This thread's own tag(): the result names the thread, so another thread's implementation shows in the outcome."""

    def tag(v):
        return ct.IntType(int(v) * 10 + thread + 1)

    return {"tag": tag} if thread == 3 else [tag]


def make_body(thread: int, runner: str, prog: int, nevals: int):
    def body() -> List[Any]:
        out: List[Any] = []
        try:
            env = celpy.Environment(runner_class=RUNNERS[runner])
            ast = env.compile(PROGRAMS[prog])
            # (only the programs that call tag() are given it: the compiled runner cannot be given a nested function at all - a recorded finding of C14)
            prgm = env.program(ast, functions=host_functions(thread)) if "tag(" in PROGRAMS[prog] else env.program(ast)
        except Exception as ex:
            return [("crash", type(ex).__name__, "setup")]
        for k in range(nevals):
            try:
                out.append(outcome.value_outcome(prgm.evaluate(bindings_for(thread, k))))
            except CELEvalError:
                out.append(("error",))
            except Exception as ex:
                out.append(("crash", type(ex).__name__, "evaluate"))
        return out

    return body


_ALONE: Dict[Tuple, Tuple[Any, int]] = {}
_HOT: Dict[Tuple, List[int]] = {}
_HOT_NAMES: Dict[Tuple, List[str]] = {}
_HOT_FIRST: Dict[Tuple, List[int]] = {}
HOT_FUNCTIONS = {"evaluate", "transpile", "program", "parse", "result", "compile", "__init__", "new_activation", "clone"}


def alone(thread: int, runner: str, prog: int, nevals: int) -> Tuple[Any, int]:
    key = (thread, runner, prog, nevals)
    if key not in _ALONE:
        with host_limit():
            _ALONE[key] = sched.run_alone(make_body(thread, runner, prog, nevals))
        names = getattr(sched.run_alone, "last_step_names", [])
        # steps (1-based) at which this thread, running alone, is inside one of the functions that touch process-wide state
        _HOT[key] = [i + 1 for i, nm in enumerate(names) if nm in HOT_FUNCTIONS or nm.startswith(("function_", "macro_", "tz_", "get"))]
        _HOT_NAMES[key] = [nm for nm in names if nm in HOT_FUNCTIONS or nm.startswith(("function_", "macro_", "tz_", "get"))]
        lines = getattr(sched.run_alone, "last_step_lines", [])
        seen: set = set()
        first: List[int] = []
        for i, (nm, ln) in enumerate(zip(names, lines)):
            if (nm in HOT_FUNCTIONS or nm.startswith(("function_", "macro_", "tz_", "get"))) and ln not in seen:
                seen.add(ln)
                first.append(i + 1)
        _HOT_FIRST[key] = first  # the first execution of every distinct source line of a state-touching function
    return _ALONE[key]


def check_schedule(run: common.Run, threads: List[Tuple[str, int, int]], schedule: List[Tuple[int, int]], report, fractions: bool = True) -> None:
    """threads: [(runner, program index, number of evaluations)]; schedule: [(position, target)], position in per-mille of the total step count if fractions."""
    n = len(threads)
    expected = []
    total = 0
    for i, (r, p, k) in enumerate(threads):
        res, steps = alone(i, r, p, k)
        expected.append(res)
        total += steps
    sch = [((pos * total) // 1000 if fractions else pos, tgt % n) for pos, tgt in schedule]
    if fractions and schedule and schedule[0][0] % 2 == 1:
        # aim the first preemption at a line of thread 0 inside a function that touches process-wide state
        hot = _HOT.get((0,) + tuple(threads[0]), [])
        if hot:
            sch[0] = (hot[(schedule[0][0] * 7919) % len(hot)], sch[0][1] if sch[0][1] != 0 else 1)
    sch.sort()
    s = sched.Scheduler([make_body(i, r, p, k) for i, (r, p, k) in enumerate(threads)], sch)
    try:
        with host_limit():
            got = s.run()
    except sched.Stall as ex:
        raise common.HarnessError(f"scheduler stalled: {ex}")
    run.tick()
    case = {"threads": [list(t) for t in threads], "schedule": [list(x) for x in sch], "fractions": False}
    eff = s.effective_switches
    if eff:
        run.nt((tuple(threads), tuple(sch)))
        run.event("nontrivial")
    run.event(f"threads:{n}")
    run.event(f"effective-preemptions:{min(len(eff), 5)}")
    run.event("runners:" + "".join(sorted(set(t[0] for t in threads))))
    for i in range(n):
        if s.errors[i] is not None:
            report(f"thread-raised-{type(s.errors[i]).__name__}", case, f"thread {i} raised {s.errors[i]!r}")
            continue
        if got[i] != expected[i]:
            other = "mixed-runners" if len(set(t[0] for t in threads)) > 1 else f"all-{threads[0][0]}"
            kind = "crash" if any(isinstance(o, tuple) and o and o[0] == "crash" for o in (got[i] or [])) else "wrong-result"
            where = eff[0][3].split(":")[0] + ":" + eff[0][3].split(":")[2] if eff else "no-preemption"
            report(f"interference-{threads[i][0]}-thread-{kind}-{other}", dict(case, thread=i, preempted_at=[e[3] for e in eff][:5]),
                   f"thread {i} ({threads[i][0]}, {PROGRAMS[threads[i][1]]!r}) returned {str(got[i])[:160]} but alone {str(expected[i])[:160]}; preemptions at {[e[3] for e in eff][:3]}")
    run.sample({"threads": [(r, PROGRAMS[p], k) for r, p, k in threads], "schedule_steps": [x[0] for x in sch], "effective": [e[3] for e in eff][:3]}, bucket=str(n))


def stress(run: common.Run, iterations: int, report) -> None:
    """Free-running threads with a tiny switch interval; not reproducible, so only a supplement to the controlled scheduler."""
    old = sys.getswitchinterval()
    sys.setswitchinterval(1e-6)
    try:
        for it in range(iterations):
            threads = [("C", it % len(PROGRAMS), 3), ("C", (it * 5 + 1) % len(PROGRAMS), 3), ("I", (it * 3 + 2) % len(PROGRAMS), 3), ("C", (it * 7 + 3) % len(PROGRAMS), 3)]
            with host_limit():
                expected = [_in_thread(make_body(i, r, p, k)) for i, (r, p, k) in enumerate(threads)]
            results: List[Any] = [None] * len(threads)
            barrier = threading.Barrier(len(threads))

            def worker(i: int, r: str, p: int, k: int) -> None:
                barrier.wait()
                results[i] = make_body(i, r, p, k)()

            ts = [threading.Thread(target=worker, args=(i, r, p, k)) for i, (r, p, k) in enumerate(threads)]
            with host_limit():
                for t in ts:
                    t.start()
                for t in ts:
                    t.join(120)
            run.tick()
            run.event("stress-iteration")
            for i in range(len(threads)):
                if results[i] != expected[i]:
                    report(f"interference-{threads[i][0]}-thread-stress", {"stress": True, "threads": [list(t) for t in threads]},
                           f"free-running: thread {i} returned {str(results[i])[:120]} but alone {str(expected[i])[:120]}")
    finally:
        sys.setswitchinterval(old)


def _in_thread(body) -> Any:
    """Run a body alone in a thread of its own (same stack situation as the concurrent run)."""
    box: List[Any] = [None]
    t = threading.Thread(target=lambda: box.__setitem__(0, body()))
    t.start()
    t.join(120)
    return box[0]


def _representatives(key: Tuple, per_name: int, offset: int) -> List[int]:
    """Steps at which the thread, running alone, is inside a state-touching function: for every such function (evaluate, program, parse, transpile, result,
    function_*, macro_* ...) its first line, and per_name - 1 further lines spread over its occurrences (rotated by offset)."""
    steps, names = _HOT.get(key, []), _HOT_NAMES.get(key, [])
    by_name: Dict[str, List[int]] = {}
    for st_, nm in zip(steps, names):
        by_name.setdefault(nm, []).append(st_)
    out: List[int] = []
    for nm in sorted(by_name):
        occ = by_name[nm]
        picks = {occ[0]}
        for j in range(1, per_name):
            picks.add(occ[(offset * 7 + j * max(1, len(occ) // per_name)) % len(occ)])
        out += sorted(picks)
    return out


def double_preemption(run: common.Run, pairs: List[Tuple[Tuple, Tuple]], report, per_name: int, offset: int = 0) -> int:
    """A is preempted inside a function that touches process-wide state, B runs until it is inside such a function too, A resumes and finishes, then B
    continues: the schedule that exposes save/restore of a process-wide setting. B's k-th line alone is global step s1 + k after a switch at s1.
    Every state-touching function of A is crossed with every state-touching function of B (per_name lines of each)."""
    n = 0
    for a, b in pairs:
        alone(0, *a)
        alone(1, *b)
        for s1 in _representatives((0,) + tuple(a), per_name, offset):
            for k in _representatives((1,) + tuple(b), per_name, offset):
                check_schedule(run, [a, b], [(s1, 1), (s1 + k, 0)], report, fractions=False)
                run.event("double-preemption-schedule")
                n += 1
    return n


DOUBLE_PAIRS = [(("I", 21, 2), ("I", 23, 2)), (("C", 3, 2), ("I", 19, 2)), (("I", 0, 2), ("C", 19, 2)), (("I", 3, 2), ("I", 20, 2)), (("C", 5, 2), ("C", 12, 2)), (("I", 17, 2), ("C", 16, 2))]


def replay(run: common.Run, case: dict, key: str = ""):
    problems = []
    rep = lambda k, c, d: problems.append((k, d))
    if case.get("stress"):
        stress(run, 20, rep)
    else:
        check_schedule(run, [tuple(t) for t in case["threads"]], [tuple(x) for x in case["schedule"]], rep, fractions=case.get("fractions", False))
    return problems


def thread_strategy():
    return st.tuples(st.sampled_from(["C", "C", "I"]), st.integers(0, len(PROGRAMS) - 1), st.integers(2, 4))


def campaign(run: common.Run) -> None:
    q = run.tier == "quick"
    max_pre = 3 if q else 5

    def body(threads, schedule):
        check_schedule(run, threads, schedule, run.hyp_fail)

    common.drive(run, body, {"threads": st.lists(thread_strategy(), min_size=2, max_size=4),
                              "schedule": st.lists(st.tuples(st.integers(0, 1000), st.integers(0, 3)), min_size=1, max_size=max_pre)}, 250 if q else 1500, seed_salt=1)


def hot_single_preemption(run: common.Run, pairs: List[Tuple[Tuple, Tuple]], report) -> int:
    """One preemption at the first execution of EVERY distinct source line thread A runs inside a state-touching function (constructors included); B then
    runs to completion and A resumes."""
    n = 0
    for a, b in pairs:
        alone(0, *a)
        for s in _HOT_FIRST.get((0,) + tuple(a), []):
            check_schedule(run, [a, b], [(s, 1)], report, fractions=False)
            run.event("hot-single-preemption-schedule")
            n += 1
    return n


HOT_PAIRS = [(("C", 0, 2), ("C", 0, 2)), (("C", 2, 3), ("C", 2, 2)), (("C", 0, 2), ("I", 3, 2)), (("I", 5, 2), ("C", 8, 2)), (("C", 13, 2), ("C", 15, 2)), (("I", 21, 2), ("I", 22, 2))]


def exhaustive_single_preemption(run: common.Run, pairs: List[Tuple[Tuple, Tuple]], report, shard: Optional[Tuple[int, int]] = None, stride: int = 1) -> int:
    n = 0
    for pi, (a, b) in enumerate(pairs):
        _, steps_a = alone(0, *a)
        for s in range(1, steps_a + 1, stride):
            if shard and (s // stride) % shard[1] != shard[0]:
                continue
            check_schedule(run, [a, b], [(s, 1)], report, fractions=False)
            n += 1
    return n


PAIRS = [(("I", 21, 2), ("I", 22, 2)), (("C", 0, 2), ("C", 3, 2)), (("I", 12, 2), ("C", 15, 2)), (("C", 2, 2), ("C", 1, 2)), (("C", 8, 2), ("I", 0, 2)), (("I", 2, 2), ("C", 5, 2)), (("C", 5, 2), ("C", 5, 2)), (("C", 13, 2), ("I", 14, 2)), (("I", 16, 2), ("I", 17, 2))]


def _shard(run: common.Run) -> None:
    shard = (run.seed % 1000 - 1) % 16
    n = exhaustive_single_preemption(run, PAIRS, run.fail, shard=(shard, 16))
    run.extra["exhaustive_single_preemption_runs"] = n
    run.extra["double_preemption_runs"] = double_preemption(run, DOUBLE_PAIRS, run.fail, 4, offset=run.seed)
    campaign(run)


def main(run: common.Run) -> None:
    run.assumptions = [
        "preemption granularity is a Python source line inside celpy/*.py and transpiled '<string>' code; other modules (lark, re2, stdlib) run unpreempted",
        "bounded number of preemptions (3 quick / 5 thorough); the stress run is not reproducible and only supplements the controlled scheduler",
        "logging is disabled (a thread suspended inside a logging handler lock would deadlock the baton); a stall is a harness error, never a violation",
        "each thread builds its own Environment and program inside the thread, as the documented threading contract requires",
    ]
    for p in common.committed_replays(run.pid):
        doc = common.load_replay(p)
        for k, d in replay(run, doc["case"], doc.get("key", "")):
            run.fail(k, doc["case"], d)
        run.event("replayed")
    if run.tier == "quick":
        # every 16th single-preemption point of the first two pairs, then generated schedules, then a short stress
        n = exhaustive_single_preemption(run, PAIRS[:2], run.fail, stride=8)
        run.extra["single_preemption_runs"] = n
        run.extra["hot_single_preemption_runs"] = hot_single_preemption(run, HOT_PAIRS, run.fail)
        run.extra["double_preemption_runs"] = double_preemption(run, DOUBLE_PAIRS[: 3], run.fail, 2, offset=run.seed)
        campaign(run)
        stress(run, 15, run.fail)
    else:
        for s in common.run_sharded(run.pid, run.tier, run.seed, _shard, 16, RULE):
            run.merge(s)
        stress(run, 300, run.fail)
