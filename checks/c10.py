"""C10 — type conversions round-trip and range-check.

Values of every source type are bound to `x`; conversion chains run as cached programs under both runners;
oracle = identity for round trips, exact truncation + range predicate (Fractions) for numeric narrowing, Error
for unparsable text / invalid UTF-8 / out-of-range.
"""

from __future__ import annotations

import math
from fractions import Fraction
from typing import Any, Tuple

from hypothesis import strategies as st

from vf import cel, common, outcome, values

RULE = (
    "every int64/uint64/finite double/Unicode string/byte string/whole-second timestamp (years 0001-9999, with offsets)/"
    "duration (+-315576000000 s) bound as x; chains int(string(x)), uint(string(x)), double(string(x)), string(bytes(x)), "
    "timestamp(string(x)), duration(string(x)), int(x)/uint(x) from double/int/uint, string(x) of bytes, and unparsable texts; "
    "both runners. non-trivial = value at a range edge, negative, >= 16 significant digits, exponent spelling, year < 1000, "
    "non-UTC offset, non-ASCII text, or the conversion must fail. distinct by (chain, x)."
)
ERR = ("error",)


def val(kind: str, payload: Any) -> Tuple:
    return ("value", kind, payload)


def expect_case(chain: str, kind: str, x: Any) -> Any:
    """Expected outcome as a canonical (kind, payload) or ERR; None = not asserted."""
    if chain in ("int(string(x))", "uint(string(x))", "double(string(x))", "string(bytes(x))", "timestamp(string(x))", "duration(string(x))"):
        if kind == "double":
            return ("double", outcome.dbl(x))
        return (kind, x)
    if chain == "int(x)":
        if kind == "double":
            t = math.trunc(Fraction(x))
            return ("int", t) if values.I_MIN <= t <= values.I_MAX else ERR
        if kind == "uint":
            return ("int", x) if x <= values.I_MAX else ERR
        if kind == "int":
            return ("int", x)
    if chain == "uint(x)":
        if kind == "double":
            if -1 < x < 0:
                return None  # truncates to 0 but is negative: the statement does not decide
            t = math.trunc(Fraction(x))
            return ("uint", t) if 0 <= t <= values.U_MAX else ERR
        if kind == "int":
            return ("uint", x) if x >= 0 else ERR
        if kind == "uint":
            return ("uint", x)
    if chain == "string(x)" and kind == "bytes":
        t = utf8_decode(bytes(x))
        try:
            py = x.decode("utf-8")
        except UnicodeDecodeError:
            py = None
        if t != py:
            raise common.HarnessError(f"own UTF-8 decoder and Python's strict codec disagree on {bytes(x)!r}")
        return ERR if t is None else ("string", t)
    if chain == "bytes(x)" and kind == "string":
        return ("bytes", x.encode("utf-8").hex())
    if chain in ("int(x)", "uint(x)", "double(x)", "timestamp(x)", "duration(x)") and kind == "garbage":
        return ERR
    if chain == "int(x)" and kind == "int-text":
        n = int(x)
        return ("int", n) if values.I_MIN <= n <= values.I_MAX else ERR
    if chain == "uint(x)" and kind == "int-text":
        n = int(x)
        return ("uint", n) if 0 <= n <= values.U_MAX else ERR
    raise ValueError((chain, kind))


def utf8_decode(b: bytes):
    """RFC 3629 table 3-7 decoder written out by hand: the text, or None for any ill-formed sequence (overlong forms, encoded
    surrogates U+D800..DFFF, code points above U+10FFFF, stray or missing continuation bytes, lead bytes C0/C1/F5..FF)."""
    out = []
    i, n = 0, len(b)
    while i < n:
        c = b[i]
        if c < 0x80:
            out.append(chr(c)); i += 1; continue
        if 0xC2 <= c <= 0xDF:
            need, lo, hi, cp = 1, 0x80, 0xBF, c & 0x1F
        elif 0xE0 <= c <= 0xEF:
            need, cp = 2, c & 0x0F
            lo, hi = (0xA0, 0xBF) if c == 0xE0 else (0x80, 0x9F) if c == 0xED else (0x80, 0xBF)
        elif 0xF0 <= c <= 0xF4:
            need, cp = 3, c & 0x07
            lo, hi = (0x90, 0xBF) if c == 0xF0 else (0x80, 0x8F) if c == 0xF4 else (0x80, 0xBF)
        else:
            return None
        if i + need > n - 1:
            return None
        for k in range(1, need + 1):
            x = b[i + k]
            l, h = (lo, hi) if k == 1 else (0x80, 0xBF)
            if not (l <= x <= h):
                return None
            cp = (cp << 6) | (x & 0x3F)
        out.append(chr(cp))
        i += need + 1
    return "".join(out)


def _ill_formed_utf8():
    """Byte strings built from valid text with exactly one ill-formed sequence of a named class spliced in."""
    from vf import values as V

    bad = st.one_of(
        st.tuples(st.just(0xED), st.integers(0xA0, 0xBF), st.integers(0x80, 0xBF)).map(bytes),                      # encoded surrogate
        st.tuples(st.tuples(st.just(0xED), st.integers(0xA0, 0xAF), st.integers(0x80, 0xBF)).map(bytes),
                  st.tuples(st.just(0xED), st.integers(0xB0, 0xBF), st.integers(0x80, 0xBF)).map(bytes)).map(b"".join),  # CESU-8 pair
        st.tuples(st.sampled_from([0xC0, 0xC1]), st.integers(0x80, 0xBF)).map(bytes),                                  # overlong 2
        st.tuples(st.just(0xE0), st.integers(0x80, 0x9F), st.integers(0x80, 0xBF)).map(bytes),                          # overlong 3
        st.tuples(st.just(0xF0), st.integers(0x80, 0x8F), st.integers(0x80, 0xBF), st.integers(0x80, 0xBF)).map(bytes),  # overlong 4
        st.tuples(st.just(0xF4), st.integers(0x90, 0xBF), st.integers(0x80, 0xBF), st.integers(0x80, 0xBF)).map(bytes),  # > U+10FFFF
        st.tuples(st.integers(0xF5, 0xFF)).map(bytes),                                                                # invalid lead
        st.tuples(st.integers(0x80, 0xBF)).map(bytes),                                                                # stray continuation
        st.sampled_from([b"\xc3", b"\xe2\x82", b"\xf0\x9f\x98", b"\xe2", b"\xf0\x9f"]),                               # truncated
    )
    return st.tuples(V.text(4), bad, V.text(4)).map(lambda t: t[0].encode("utf-8") + t[1] + t[2].encode("utf-8"))


def observed(o: Tuple) -> Any:
    if o[0] == "value":
        c = o[2]
        if c[0] == "bytes":
            return ("bytes", c[1])
        return (c[0], c[1])
    if o[0] == "error":
        return ERR
    return o


def expected_canon(e: Any) -> Any:
    if e == ERR or e is None:
        return e
    k, p = e
    if k == "bytes" and isinstance(p, (bytes, bytearray)):
        return ("bytes", bytes(p).hex())
    return (k, p)


def bind(kind: str, x: Any, off: int = 0) -> Any:
    from celpy import celtypes as ct

    if kind in ("garbage", "int-text"):
        return ct.StringType(x)
    if kind == "timestamp":
        local = x + off * 60 * 10**6
        if not (values.TS_MIN <= local <= values.TS_MAX):
            off = 0  # the local rendering would leave years 0001-9999
        return ct.TimestampType(values.us_to_datetime(x, off))
    return values.to_cel(kind, x)


def is_nontrivial(chain: str, kind: str, x: Any, off: int, exp: Any) -> bool:
    if exp == ERR:
        return True
    if kind == "int":
        return x < 0 or abs(x) >= 10**15 or x in (values.I_MIN, values.I_MAX)
    if kind == "uint":
        return x >= 2**63 or x >= 10**15
    if kind == "double":
        r = repr(x)
        return "e" in r or len(r.replace(".", "").replace("-", "")) >= 16 or x < 0 or abs(x) >= 2**62
    if kind == "string":
        return any(ord(c) > 127 or c in "\"'\\\n\0" for c in x)
    if kind == "bytes":
        return any(b > 127 for b in x)  # (ill-formed input is non-trivial already: the conversion must fail)
    if kind == "timestamp":
        return x < -30610224000 * 10**6 or off != 0 or x in (values.TS_MIN, (values.TS_MAX // 10**6) * 10**6)
    if kind == "duration":
        return x < 0 or abs(x) >= values.DUR_MAX - 10**6
    return False


def classify(chain: str, kind: str, x: Any, exp: Any, got: Any, route: str) -> str:
    if got not in (ERR,) and got[0] == "crash":
        return f"{chain}-{kind}-{route}-crash-{got[1]}"
    if exp == ERR:
        return f"{chain}-{kind}-{route}-value-instead-of-error"
    if got == ERR:
        return f"{chain}-{kind}-{route}-error-instead-of-value"
    return f"{chain}-{kind}-{route}-wrong-value"


def check_case(run: common.Run, chain: str, kind: str, x: Any, off: int, report) -> None:
    exp = expected_canon(expect_case(chain, kind, x))
    if exp is None:
        run.event("skipped-undetermined")
        return
    run.tick()
    run.event(f"{chain}:{kind}")
    if is_nontrivial(chain, kind, x, off, exp):
        run.nt((chain, kind, repr(x), off))
        run.event("nontrivial")
    run.event("expected-error" if exp == ERR else "expected-value")
    case = {"chain": chain, "kind": kind, "x": x, "offset_min": off}
    try:
        X = bind(kind, x, off)
    except Exception as ex:
        report(f"{kind}-construct-in-range-value-fails", case, f"{type(ex).__name__}: {ex}")
        return
    for r in ("I", "C"):
        got = observed(cel.run_cached(r, chain, {"x": X}))
        if got != exp:
            report(classify(chain, kind, x, exp, got, r), dict(case, route=r), f"expected {exp!r} got {got!r}")
        # also the in-language statement of the round trip
        if chain.count("(") == 2 and exp != ERR and kind in ("int", "uint", "double", "string", "timestamp", "duration") and kind != "string":
            got2 = observed(cel.run_cached(r, f"{chain} == x", {"x": X}))
            if got2 != ("bool", True) and got == exp:
                report(f"{chain}-{kind}-{r}-inlanguage-eq-false", dict(case, route=r), f"`{chain} == x` gave {got2!r}")
    run.sample({"chain": chain, "x": repr(x)[:60], "offset_min": off, "expected": repr(exp)[:60]}, bucket=chain + kind)


GARBAGE = st.one_of(
    st.sampled_from(["", "abc", "--1", "1-", "1.5.2", "0x", "0xg", "one", "1 2", "+-3", "12g", "z9", "#", "1e", "e5", "..", "-", "+",
                     "2009-13-45T00:00:00Z", "T", "1h2", "h", "5x", "s5", "1.s.2", "--5s"]),
    st.text(alphabet="gkzGKZ!#@", min_size=1, max_size=5),
    st.tuples(st.integers(0, 999).map(str), st.text(alphabet="gkz!#", min_size=1, max_size=2), st.integers(0, 99).map(str)).map("".join),
)

INT_TEXT = st.one_of(
    st.integers(values.I_MIN - 5, values.I_MAX + 5), st.integers(values.U_MAX - 5, values.U_MAX + 5), st.integers(-10, 10),
    st.integers(-(2**70), 2**70), values.int64(), values.uint64()
).map(str)


def plans():
    """(chain, kind, strategy for x) triples."""
    ws = True
    return [
        ("int(string(x))", "int", values.int64()),
        ("uint(string(x))", "uint", values.uint64()),
        ("double(string(x))", "double", values.finite_double()),
        ("string(bytes(x))", "string", values.text(10)),
        ("timestamp(string(x))", "timestamp", values.timestamp_us(whole_seconds=ws)),
        ("duration(string(x))", "duration", values.duration_us(whole_seconds=ws)),
        ("int(x)", "double", values.finite_double() | st.integers(-(2**64), 2**64).map(float) | st.floats(-9.3e18, 9.3e18, allow_nan=False)),
        ("uint(x)", "double", values.finite_double() | st.integers(-10, 2**65).map(float) | st.floats(-2.0, 1.9e19, allow_nan=False)),
        ("int(x)", "uint", values.uint64()),
        ("uint(x)", "int", values.int64()),
        ("int(x)", "int", values.int64()),
        ("uint(x)", "uint", values.uint64()),
        ("string(x)", "bytes", values.binary(8) | _ill_formed_utf8()),
        ("bytes(x)", "string", values.text(8)),
        ("int(x)", "garbage", GARBAGE),
        ("uint(x)", "garbage", GARBAGE),
        ("double(x)", "garbage", GARBAGE.filter(lambda s: s.strip().lower().lstrip("+-") not in ("inf", "nan", "infinity"))),
        ("timestamp(x)", "garbage", GARBAGE),
        ("duration(x)", "garbage", GARBAGE),
        ("int(x)", "int-text", INT_TEXT),
        ("uint(x)", "int-text", INT_TEXT),
    ]


def replay(run: common.Run, case: dict, key: str = ""):
    problems = []
    check_case(run, case["chain"], case["kind"], case["x"], case.get("offset_min", 0), lambda k, c, d: problems.append((k, d)))
    return problems


def make_body(run, chain, kind):
    def body(x, off):
        check_case(run, chain, kind, x, off if kind == "timestamp" else 0, run.hyp_fail)

    return body


def campaign(run: common.Run) -> None:
    n = 700 if run.tier == "quick" else 8000
    offs = st.one_of(st.just(0), st.just(0), st.sampled_from([60, -60, 330, -300, 840, -840, 1, -1]), st.integers(-840, 840))
    for i, (chain, kind, strat) in enumerate(plans()):
        common.drive(run, make_body(run, chain, kind), {"x": strat, "off": offs}, n, seed_salt=i)


def main(run: common.Run) -> None:
    run.assumptions = [
        "uint(d) for -1 < d < 0 is not asserted (truncates to 0 yet is negative: the statement does not decide)",
        "'unparsable text' is restricted to texts no CEL implementation accepts (letters outside digits/hex/exponent/units, empty, doubled signs); "
        "lenient spellings Python accepts (underscores, surrounding blanks) are not asserted either way",
        "classes of results are C13's subject; values are compared canonically",
    ]
    for p in common.committed_replays(run.pid):
        doc = common.load_replay(p)
        for k, d in replay(run, doc["case"], doc.get("key", "")):
            run.fail(k, doc["case"], d)
        run.event("replayed")
    if run.tier == "quick":
        campaign(run)
    else:
        for s in common.run_sharded(run.pid, run.tier, run.seed, campaign, 16, RULE):
            run.merge(s)
