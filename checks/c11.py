"""C11 — timestamp/duration arithmetic and calendar accessors are exact.

Oracle: integer-microsecond arithmetic + vf.calendar (days-from-civil, no datetime) for accessors; fixed offsets
and constant-offset IANA zones by their known offset, DST zones differentially against zoneinfo; duration texts
by exact Fraction sums.
"""

from __future__ import annotations

import datetime
from fractions import Fraction
from typing import Any, Optional, Tuple

from hypothesis import strategies as st

from celpy import celtypes as ct

from vf import calendar, cel, common, outcome, values

RULE = (
    "timestamps (microsecond resolution, years 0001-9999, boundary-biased) x durations (+-315576000000 s) for t+d, d+t, t-d, t1-t2, d1+d2, d1-d2 and the "
    "in-language laws; accessors x {UTC, +-HH:MM offsets -14:00..+14:00, constant-offset IANA zones, DST zones vs zoneinfo}; duration texts built from "
    "h/m/s/ms/us/ns components with sign and fractions. non-trivial = local date differs from UTC date, instant within a day of a month/year/leap "
    "boundary, negative/fractional duration, or the result overflows. distinct by (operation, operands)."
)
ERR = ("error",)
ACCESSORS = ["getFullYear", "getMonth", "getDate", "getDayOfMonth", "getDayOfYear", "getDayOfWeek", "getHours", "getMinutes", "getSeconds", "getMilliseconds"]

# IANA zones whose UTC offset has been constant since 1970 (public record), offset in minutes
CONST_ZONES = {"UTC": 0, "Etc/GMT+5": -300, "Etc/GMT-3": 180, "Etc/GMT-14": 840, "Etc/GMT+12": -720, "Asia/Kolkata": 330, "Asia/Tokyo": 540,
               "America/Phoenix": -420, "Asia/Dubai": 240, "Africa/Lagos": 60, "Pacific/Honolulu": -600, "Asia/Kathmandu": None}
DST_ZONES = ["America/New_York", "Europe/Paris", "Australia/Sydney", "America/Sao_Paulo", "Europe/London", "Pacific/Auckland", "US/Central", "CET"]
T1970 = 0
T1987 = 536457600 * 10**6  # Kathmandu changed offset in 1986
T2037 = 2114380800 * 10**6


def ts(us: int, off: int = 0) -> Any:
    return ct.TimestampType(values.us_to_datetime(us, off))


def dur(us: int) -> Any:
    return ct.DurationType(datetime.timedelta(microseconds=us))


def obs(o) -> Any:
    if o[0] == "value":
        return o[2]
    if o[0] == "error":
        return ERR
    return o


def in_ts(us: int) -> bool:
    return values.TS_MIN <= us <= values.TS_MAX


def in_dur(us: int) -> bool:
    return -values.DUR_MAX <= us <= values.DUR_MAX


def near_boundary(us: int) -> bool:
    f = calendar.fields(us)
    d, m, y = f["getDate"], f["getMonth"] + 1, f["getFullYear"]
    if d == 1 or d >= 28:
        return True
    return False


def check_arith(run: common.Run, t: int, t2: int, d: int, d2: int, report) -> None:
    """All arithmetic forms on one tuple of operands."""
    T, T2, D, D2 = ts(t), ts(t2), dur(d), dur(d2)
    b = {"t": T, "t2": T2, "d": D, "d2": D2}
    case = {"t": t, "t2": t2, "d": d, "d2": d2}
    plans = [
        ("t + d", ("timestamp", t + d) if in_ts(t + d) else ERR),
        ("d + t", ("timestamp", t + d) if in_ts(t + d) else ERR),
        ("t - d", ("timestamp", t - d) if in_ts(t - d) else ERR),
        ("t - t2", ("duration", t - t2) if in_dur(t - t2) else ERR),
        ("d + d2", ("duration", d + d2) if in_dur(d + d2) else ERR),
        ("d - d2", ("duration", d - d2) if in_dur(d - d2) else ERR),
    ]
    if in_ts(t + d):
        plans += [("(t + d) - d == t", ("bool", True)), ("(t + d) - t == d", ("bool", True)), ("(t + d) - d", ("timestamp", t)), ("(t + d) - t", ("duration", d))]
    for src, exp in plans:
        run.tick()
        if exp == ERR or d < 0 or d % 10**6 or near_boundary(t):
            run.nt((src, t, t2, d, d2))
            run.event("nontrivial")
        run.event("arith-expected-error" if exp == ERR else "arith-expected-value")
        for r in ("I", "C"):
            got = obs(cel.run_cached(r, src, b))
            if got != exp:
                mode = "value-instead-of-error" if exp == ERR else ("error-instead-of-value" if got == ERR else "wrong-value")
                report(f"arith[{src}]-{mode}", dict(case, src=src, route=r), f"{src}: expected {exp} got {str(got)[:160]}")
    run.sample({"t": calendar.rfc3339(t), "d_us": d, "t+d": calendar.rfc3339(t + d) if in_ts(t + d) else "out of range"}, bucket="arith")


def zone_offset_min(zone: str, us: int) -> Optional[int]:
    """UTC offset (minutes) of a named zone or +-HH:MM text at instant us; None if not determined by our model."""
    if zone in CONST_ZONES and CONST_ZONES[zone] is not None:
        return CONST_ZONES[zone] if us >= T1970 else None
    if zone == "Asia/Kathmandu":
        return 345 if us >= T1987 else None
    if zone[0] in "+-":
        hh, mm = zone[1:].split(":")
        v = int(hh) * 60 + int(mm)
        return -v if zone[0] == "-" else v
    return None


def zoneinfo_offset_s(zone: str, us: int) -> int:
    import zoneinfo

    z = zoneinfo.ZoneInfo(zone)
    dt = datetime.datetime(1970, 1, 1, tzinfo=datetime.timezone.utc) + datetime.timedelta(microseconds=us)
    return int(dt.astimezone(z).utcoffset().total_seconds())


def check_accessors(run: common.Run, us: int, zone: Optional[str], bind_off: int, report) -> None:
    """All ten accessors on one instant in one zone (None = no argument = UTC)."""
    if zone is None:
        off_s, oracle = 0, "calendar"
    else:
        om = zone_offset_min(zone, us)
        if om is not None:
            off_s, oracle = om * 60, "calendar"
        elif zone in DST_ZONES or zone in CONST_ZONES:
            if not (T1970 <= us <= T2037):
                run.event("skipped-zone-outside-1970-2037")
                return
            off_s, oracle = zoneinfo_offset_s(zone, us), "zoneinfo-offset+calendar"
        else:  # pragma: no cover
            raise common.HarnessError(f"unknown zone {zone}")
    local = us + off_s * 10**6
    if not in_ts(local) or not in_ts(us + bind_off * 60 * 10**6):
        run.event("skipped-local-out-of-range")
        return
    want = calendar.fields(us, off_s)
    T = ts(us, bind_off)
    case = {"us": us, "zone": zone, "bound_with_offset_min": bind_off, "utc": calendar.rfc3339(us)}
    utc = calendar.fields(us, 0)
    nontriv = (want["getDate"], want["getMonth"]) != (utc["getDate"], utc["getMonth"]) or near_boundary(local) or us < 0
    for acc in ACCESSORS:
        run.tick()
        src = f"t.{acc}()" if zone is None else f"t.{acc}(z)"
        b = {"t": T} if zone is None else {"t": T, "z": ct.StringType(zone)}
        if nontriv:
            run.nt((acc, us, zone))
        for r in ("I", "C"):
            got = obs(cel.run_cached(r, src, b))
            exp = ("int", want[acc])
            if got != exp:
                zk = "utc" if zone is None else ("offset" if zone[0] in "+-" else "iana")
                report(f"accessor-{acc}-{zk}-" + ("error" if got == ERR else "wrong"), dict(case, src=src, route=r, oracle=oracle), f"{src} @ {zone}: expected {exp} got {str(got)[:120]}")
    run.event("zone:" + ("none" if zone is None else "offset" if zone[0] in "+-" else "dst" if zone in DST_ZONES else "const-iana"))
    if nontriv:
        run.event("nontrivial")
    run.sample({"instant": calendar.rfc3339(us), "zone": zone, "fields": want}, bucket="acc" + str(zone)[:1])


# --- duration texts ----------------------------------------------------------------------------------

UNIT_US = {"h": 3600 * 10**6, "m": 60 * 10**6, "s": 10**6, "ms": 1000, "us": 1}


@st.composite
def duration_text(draw):
    """(text, exact microseconds). Components h m s ms us ns with optional fractions; the total is a whole number of microseconds."""
    units = draw(st.lists(st.sampled_from(["h", "m", "s", "ms", "us", "ns"]), min_size=1, max_size=4, unique=True))
    order = ["h", "m", "s", "ms", "us", "ns"]
    if draw(st.integers(0, 4)) != 0:
        units.sort(key=order.index)
    sign = draw(st.sampled_from(["", "", "+", "-"]))
    total = Fraction(0)
    parts = []
    for u in units:
        if u == "ns":
            n = draw(st.integers(0, 999)) * 1000
            parts.append(f"{n}ns")
            total += Fraction(n, 1000)
            continue
        whole = draw(st.one_of(st.integers(0, 99), st.integers(0, 99999)))
        if draw(st.integers(0, 2)) == 0:
            # a fraction that is a whole number of microseconds in this unit
            scale = UNIT_US[u]
            digits = draw(st.integers(1, 3))
            fr = draw(st.integers(0, 10**digits - 1))
            frac_us = Fraction(fr, 10**digits) * scale
            if frac_us.denominator != 1:
                fr, digits = 5, 1
                frac_us = Fraction(1, 2) * scale
                if frac_us.denominator != 1:
                    fr, digits, frac_us = 0, 1, Fraction(0)
            if draw(st.integers(0, 3)) == 0:
                whole = 0
            lead = "" if whole == 0 and draw(st.booleans()) else str(whole)  # ".5s": the spelling without a leading digit
            parts.append(f"{lead}.{fr:0{digits}d}{u}")
            total += whole * scale + frac_us
        else:
            parts.append(f"{whole}.{u}" if draw(st.integers(0, 5)) == 0 else f"{whole}{u}")  # "5.s": a decimal point with nothing after it
            total += whole * UNIT_US[u]
    text = sign + "".join(parts)
    us = int(total)
    assert total.denominator == 1
    return text, (-us if sign == "-" else us), any("." in p for p in parts)


def check_duration_text(run: common.Run, text: str, us: int, fractional: bool, report) -> None:
    run.tick()
    exp = ("duration", us) if in_dur(us) else ERR
    if us < 0 or fractional or exp == ERR or len([c for c in text if c.isalpha()]) > 2:
        run.nt(("durtext", text))
        run.event("nontrivial")
    run.event("durtext-fractional" if fractional else "durtext-integral")
    for r in ("I", "C"):
        got = obs(cel.run_cached(r, "duration(x)", {"x": ct.StringType(text)}))
        if got != exp:
            report("duration-text-" + ("error" if got == ERR else "wrong-value"), {"text": text, "us": us, "route": r}, f"duration({text!r}): expected {exp} got {got}")
    run.sample({"duration_text": text, "microseconds": us}, bucket="durtext")


def replay(run: common.Run, case: dict, key: str = ""):
    problems = []
    rep = lambda k, c, d: problems.append((k, d))
    if "text" in case:
        check_duration_text(run, case["text"], case["us"], "." in case["text"], rep)
    elif "zone" in case:
        check_accessors(run, case["us"], case["zone"], case.get("bound_with_offset_min", 0), rep)
    else:
        check_arith(run, case["t"], case["t2"], case["d"], case["d2"], rep)
    return problems


def offsets_text():
    def fmt(m):
        sign = "-" if m < 0 else "+"
        a = abs(m)
        return f"{sign}{a // 60:02d}:{a % 60:02d}"

    return st.one_of(st.sampled_from([0, 60, -60, 330, -210, 840, -840, 765, 1, -1, 599, -720]), st.integers(-840, 840)).map(fmt)


_TRANSITIONS: dict = {}


def transitions(zone: str, year: int) -> list:
    """Instants (microseconds) at which the zone's UTC offset changes during the year, found by scanning zoneinfo hour by hour (then to the second)."""
    key = (zone, year)
    if key not in _TRANSITIONS:
        import datetime as _dt
        import zoneinfo

        z = zoneinfo.ZoneInfo(zone)
        start = int(_dt.datetime(year, 1, 1, tzinfo=_dt.timezone.utc).timestamp())
        out, prev = [], None
        for h in range(0, 366 * 24):
            t = start + h * 3600
            off = _dt.datetime.fromtimestamp(t, _dt.timezone.utc).astimezone(z).utcoffset()
            if prev is not None and off != prev:
                out.append(t * 10**6)  # the offset changed during the hour ending here (transitions fall on whole hours or half hours)
            prev = off
        _TRANSITIONS[key] = out
    return _TRANSITIONS[key]


@st.composite
def near_transition(draw):
    """(instant, zone) with the instant within 15 hours of a change of the zone's UTC offset: where a conversion that asks the zone for its offset with
    the wrong wall clock goes wrong."""
    zone = draw(st.sampled_from(DST_ZONES))
    year = draw(st.integers(1971, 2036))
    ts = transitions(zone, year)
    if not ts:
        return draw(st.integers(T1970, T2037)), zone
    t = draw(st.sampled_from(ts))
    return t + draw(st.integers(-15 * 3600, 15 * 3600)) * 10**6 + draw(st.sampled_from([0, 0, 1, 999999, 500000])), zone


def campaign(run: common.Run) -> None:
    q = run.tier == "quick"

    def body_arith(t, t2, d, d2):
        check_arith(run, t, t2, d, d2, run.hyp_fail)

    def body_acc(us, zone, bo):
        check_accessors(run, us, zone, bo, run.hyp_fail)

    def body_dt(c):
        text, us, fr = c
        # keep the library's double-precision sum able to resolve a microsecond
        if fr and abs(us) >= 10**14:
            return
        check_duration_text(run, text, us, fr, run.hyp_fail)

    common.drive(run, body_arith, {"t": values.timestamp_us(), "t2": values.timestamp_us(), "d": values.duration_us(), "d2": values.duration_us()},
                 1500 if q else 8000, seed_salt=1)
    zones = st.one_of(st.none(), offsets_text(), offsets_text(), st.sampled_from(sorted(CONST_ZONES)), st.sampled_from(DST_ZONES))
    recent = st.integers(T1970, T2037)
    common.drive(run, body_acc, {"us": st.one_of(values.timestamp_us(), recent, recent), "zone": zones,
                                  "bo": st.sampled_from([0, 0, 0, 60, -300, 330])}, 1200 if q else 8000, seed_salt=2)
    common.drive(run, body_dt, {"c": duration_text()}, 1500 if q else 8000, seed_salt=3)

    def body_near(c, bo):
        run.event("near-offset-transition")
        check_accessors(run, c[0], c[1], bo, run.hyp_fail)

    common.drive(run, body_near, {"c": near_transition(), "bo": st.sampled_from([0, 0, 60, -300])}, 400 if q else 4000, seed_salt=4)


def main(run: common.Run) -> None:
    run.assumptions = [
        "fractional duration texts limited to |d| < 1e8 s and whole microseconds (the library sums doubles)",
        "constant-offset IANA zones use their publicly recorded offset for instants >= 1970; DST zones are compared differentially with zoneinfo (1970-2037)",
        "fixed offsets are written +HH:MM / -HH:MM; instants whose local rendering leaves years 0001-9999 are skipped",
        "the non-standard 'd' duration unit the library also accepts is not generated",
    ]
    for p in common.committed_replays(run.pid):
        doc = common.load_replay(p)
        for k, d in replay(run, doc["case"], doc.get("key", "")):
            run.fail(k, doc["case"], d)
        run.event("replayed")
    if run.tier == "quick":
        campaign(run)
    else:
        for s in common.run_sharded(run.pid, run.tier, run.seed, campaign, 16, RULE):
            run.merge(s)
