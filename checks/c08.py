"""C08 — equality and ordering are coherent within each CEL type.

Pairs/triples of same-type values; the six relations through both runners (bound operands, and spelled
literals for timestamps/durations/ints/strings) and through the celtypes dunders (direct and reflected).
Oracle: the algebraic laws of the statement + a native model (ints as ints, strings by code point, ...).
"""

from __future__ import annotations

import copy
import operator
from typing import Any, List, Optional, Tuple

from hypothesis import strategies as st

from vf import calendar, cel, common, outcome, values

RULE = (
    "pairs and triples of same-type values (int, uint, double w/o NaN, string, bytes, bool, timestamp, duration, null, "
    "lists and maps nested <= 2) where the second value is an equal copy, a one-position mutation, or independent; six "
    "relations via cached programs under both runners, via literals (timestamps with two offsets, durations in two unit "
    "spellings, ints, strings), and via celtypes dunders. non-trivial = operands are distinct objects that are equal, or "
    "differ in exactly one position/key/offset spelling/sign of zero, or are boundary values. distinct by (kind, a, b)."
)

ORDERED = ("int", "uint", "double", "string", "bytes", "bool", "timestamp", "duration")
SCALARS = ORDERED + ("null",)
RELS = ["==", "!=", "<", "<=", ">", ">="]
PYREL = {"==": operator.eq, "!=": operator.ne, "<": operator.lt, "<=": operator.le, ">": operator.gt, ">=": operator.ge}


def scalar(kind: str):
    return {
        "int": values.int64,
        "uint": values.uint64,
        "double": values.double_with_inf,
        "string": lambda: values.text(6) | st.sampled_from(["\u00e9", "e\u0301", "\u00c5", "\u212b", "\uac00", "\u1100\u1161", "x\u00e9", "e\u0301x", "\U0001d15e", "\u00f1o", "n\u0303o"]),
        "bytes": lambda: values.binary(6),
        "bool": st.booleans,
        "timestamp": values.timestamp_us,
        "duration": values.duration_us,
        "null": lambda: st.none(),
    }[kind]()


ELEM_KINDS = ["int", "uint", "double", "string", "bytes", "bool", "timestamp", "duration"]
KEY_KINDS = ["int", "uint", "bool", "string"]


@st.composite
def kind_strategy(draw, depth: int = 2) -> str:
    if depth == 0 or draw(st.integers(0, 9)) < 7:
        return draw(st.sampled_from(list(SCALARS)))
    if draw(st.booleans()):
        return f"list<{draw(kind_strategy(depth - 1))}>"
    return f"map<{draw(st.sampled_from(KEY_KINDS))},{draw(kind_strategy(depth - 1))}>"


def value_of(kind: str):
    if kind.startswith("list<"):
        return st.lists(value_of(kind[5:-1]), max_size=4)
    if kind.startswith("map<"):
        kk, vk = kind[4:-1].split(",", 1)
        keys = {"int": st.integers(-3, 3) | values.int64(), "uint": st.integers(0, 3) | values.uint64(), "bool": st.booleans(),
                "string": values.small_text() | values.text(4)}[kk]
        return st.dictionaries(keys, value_of(vk), max_size=3)
    return scalar(kind)


@st.composite
def mutate(draw, kind: str, v: Any) -> Any:
    """A value of the same kind that differs from v in (at most) one place."""
    if kind.startswith("list<"):
        inner = kind[5:-1]
        v = list(v)
        choice = draw(st.integers(0, 3))
        if choice == 0 or not v:
            return v + [draw(value_of(inner))]
        if choice == 1:
            return v[:-1]
        i = draw(st.integers(0, len(v) - 1)) if choice == 2 else len(v) - 1
        v[i] = draw(mutate(inner, v[i]))
        return v
    if kind.startswith("map<"):
        kk, vk = kind[4:-1].split(",", 1)
        v = dict(v)
        if len(v) >= 2 and draw(st.integers(0, 2)) == 0:
            # the same entries written in another order (an equal map), or written in another order with two values exchanged
            items = list(v.items())
            items.reverse()
            if draw(st.booleans()):
                (k1, v1), (k2, v2) = items[0], items[-1]
                items[0], items[-1] = (k1, v2), (k2, v1)
            return dict(items)
        if not v or draw(st.booleans()):
            k = draw(value_of(f"list<{kk}>").filter(lambda l: len(l) > 0))[0]
            v[k] = draw(value_of(vk))
            return v
        k = draw(st.sampled_from(sorted(v, key=repr)))
        if draw(st.booleans()):
            del v[k]
        else:
            v[k] = draw(mutate(vk, v[k]))
        return v
    if kind in ("int", "uint", "timestamp", "duration"):
        d = draw(st.sampled_from([1, -1]))
        lo, hi = {"int": (values.I_MIN, values.I_MAX), "uint": (0, values.U_MAX), "timestamp": (values.TS_MIN, values.TS_MAX),
                  "duration": (-values.DUR_MAX, values.DUR_MAX)}[kind]
        return min(max(v + d, lo), hi)
    if kind == "double":
        import math

        if v == 0:
            return -v  # the other zero
        return math.nextafter(v, draw(st.sampled_from([math.inf, -math.inf])))
    if kind == "string":
        import unicodedata

        k = draw(st.integers(0, 3))
        if k == 0:
            # a canonically equivalent spelling with other code points (composed / decomposed): a different string
            base = v if any(ord(c) > 127 for c in v) else v + draw(st.sampled_from(["\u00e9", "e\u0301", "\u212b", "\u00c5", "\uac00", "\u1100\u1161", "\U0001d15e"]))
            for form in ("NFD", "NFC"):
                w = unicodedata.normalize(form, base)
                if w != base:
                    return w if draw(st.booleans()) or base == v else base
            return base
        return v + draw(st.sampled_from(["", "a", "\U0001f431", "￿", "\0"])) if k == 1 else v[:-1] if k == 2 else v + draw(st.sampled_from(["\u00e9", "e\u0301"]))
    if kind == "bytes":
        return v + draw(st.sampled_from([b"", b"\x00", b"\xff"])) if draw(st.booleans()) else v[:-1]
    if kind == "bool":
        return not v
    return v


@st.composite
def same_type_tuple(draw, n: int):
    kind = draw(kind_strategy())
    a = draw(value_of(kind))
    out = [a]
    rel = []
    for _ in range(n - 1):
        how = draw(st.sampled_from(["copy", "mutate", "mutate", "independent"]))
        base = draw(st.sampled_from(out))
        if how == "copy":
            out.append(copy.deepcopy(base))
        elif how == "mutate":
            out.append(draw(mutate(kind, base)))
        else:
            out.append(draw(value_of(kind)))
        rel.append(how)
    return kind, out, rel


def model_rel(kind: str, op: str, a: Any, b: Any) -> Optional[bool]:
    """Native model. Payloads are plain Python values whose native comparison is the CEL one."""
    if op in ("==", "!="):
        return PYREL[op](a, b)
    if kind in ORDERED:
        return PYREL[op](a, b)
    return None  # ordering of lists/maps/null is not claimed


def truth(o: Tuple) -> Any:
    if o[0] == "value" and o[2][0] == "bool":
        return o[2][1]
    return o  # error / crash / non-bool


def dunder(kind: str, op: str, A: Any, B: Any) -> Any:
    try:
        r = PYREL[op](A, B)
    except TypeError:
        return ("error",)
    except Exception as ex:
        return ("crash", type(ex).__name__, "dunder")
    if r is NotImplemented:
        return ("error",)
    return bool(r)


def observe_all(kind: str, a: Any, b: Any, routes: List[str]) -> dict:
    """{route: {op: truth}}"""
    A, B = values.to_cel(kind, a), values.to_cel(kind, b)
    obs = {}
    for r in routes:
        if r in ("I", "C"):
            obs[r] = {op: truth(cel.run_cached(r, f"x {op} y", {"x": A, "y": B})) for op in RELS}
        elif r == "dunder":
            obs[r] = {op: dunder(kind, op, A, B) for op in RELS}
    return obs


def check_pair(run: common.Run, kind: str, a: Any, b: Any, how: str, report, routes=("I", "C", "dunder")) -> None:
    run.tick()
    case = {"kind": kind, "a": a, "b": b}
    ordered = kind in ORDERED
    eq_model = model_rel(kind, "==", a, b)
    if (how == "copy") or (how == "mutate") or _is_boundary(kind, a) or _is_boundary(kind, b):
        run.nt((kind, repr(a), repr(b)))
        run.event("nontrivial")
    run.event(f"kind:{kind.split('<')[0]}")
    run.event(f"how:{how}")
    run.event("model-equal" if eq_model else "model-unequal")
    fwd = observe_all(kind, a, b, list(routes))
    rev = observe_all(kind, b, a, list(routes))
    self_ = observe_all(kind, a, copy.deepcopy(a), list(routes))
    for r in routes:
        f, v, s = fwd[r], rev[r], self_[r]
        ops = RELS if ordered else ["==", "!="]
        # agreement with the native model
        for op in ops:
            m = model_rel(kind, op, a, b)
            if f[op] is not m:
                report(f"{_k(kind)}-{op}-{r}-disagrees-with-model", dict(case, route=r, op=op), f"model {m} got {f[op]!r}")
        # reflexive
        if s["=="] is not True:
            report(f"{_k(kind)}-reflexive-{r}", dict(case, route=r), f"a == copy(a) gave {s['==']!r}")
        if s["!="] is not False:
            report(f"{_k(kind)}-reflexive-ne-{r}", dict(case, route=r), f"a != copy(a) gave {s['!=']!r}")
        # symmetric
        if f["=="] != v["=="]:
            report(f"{_k(kind)}-symmetric-{r}", dict(case, route=r), f"a==b {f['==']!r} b==a {v['==']!r}")
        # != is the negation
        if isinstance(f["=="], bool) and f["!="] is not (not f["=="]):
            report(f"{_k(kind)}-ne-not-negation-{r}", dict(case, route=r), f"== {f['==']!r} != {f['!=']!r}")
        if ordered:
            if f["<"] != v[">"] or f[">"] != v["<"]:
                report(f"{_k(kind)}-lt-gt-converse-{r}", dict(case, route=r), f"a<b {f['<']!r} b>a {v['>']!r} a>b {f['>']!r} b<a {v['<']!r}")
            if all(isinstance(f[o], bool) for o in RELS):
                if f["<="] != (f["<"] or f["=="]) or f[">="] != (f[">"] or f["=="]):
                    report(f"{_k(kind)}-le-decomposition-{r}", dict(case, route=r), repr(f))
                if [f["<"], f["=="], f[">"]].count(True) != 1:
                    report(f"{_k(kind)}-trichotomy-{r}", dict(case, route=r), repr(f))
    run.sample({"kind": kind, "a": repr(a)[:80], "b": repr(b)[:80], "how": how}, bucket=kind.split("<")[0])


def _k(kind: str) -> str:
    return kind.split("<")[0]


def _is_boundary(kind: str, v: Any) -> bool:
    if kind == "int":
        return v in (values.I_MIN, values.I_MAX, 0, -1)
    if kind == "uint":
        return v in (0, values.U_MAX, 2**63)
    if kind == "double":
        return v == 0 or v in (float("inf"), float("-inf"))
    if kind == "timestamp":
        return v in (values.TS_MIN, values.TS_MAX)
    if kind == "duration":
        return abs(v) == values.DUR_MAX
    return False


def check_triple(run: common.Run, kind: str, vals: List[Any], report) -> None:
    """Transitivity of < and == over a triple (interpreter + compiled via cached programs)."""
    if kind not in ORDERED:
        ops = ["=="]
    else:
        ops = ["<", "==", "<="]
    a, b, c = vals
    A, B, C = (values.to_cel(kind, v) for v in vals)
    run.tick()
    for r in ("I", "C"):
        for op in ops:
            ab = truth(cel.run_cached(r, f"x {op} y", {"x": A, "y": B}))
            bc = truth(cel.run_cached(r, f"x {op} y", {"x": B, "y": C}))
            ac = truth(cel.run_cached(r, f"x {op} y", {"x": A, "y": C}))
            if ab is True and bc is True and ac is not True:
                report(f"{_k(kind)}-transitive-{op}-{r}", {"kind": kind, "a": a, "b": b, "c": c, "route": r}, f"a{op}b, b{op}c but a{op}c = {ac!r}")


# --- literal route: instants written with different offsets, durations in different units ------------


def ts_text(us: int, off_min: int) -> str:
    return calendar.rfc3339(us, off_min)


def dur_text(us: int, style: int) -> str:
    """Spell a duration of `us` microseconds (exactly) in one of several unit mixes."""
    sign = "-" if us < 0 else ""
    n = abs(us)
    if style == 0:
        s, frac = divmod(n, 10**6)
        return f"{sign}{s}.{frac:06d}s" if frac else f"{sign}{s}s"
    if style == 1:
        h, r = divmod(n, 3600 * 10**6)
        m, r = divmod(r, 60 * 10**6)
        s, u = divmod(r, 10**6)
        parts = [f"{h}h" if h else "", f"{m}m" if m else "", f"{s}s" if s else "", f"{u}us" if u else ""]
        return sign + ("".join(parts) or "0s")
    ms, u = divmod(n, 1000)
    return sign + (f"{ms}ms" if ms else "") + (f"{u}us" if u or not ms else "")


def check_literal_pair(run: common.Run, what: str, ta: str, tb: str, a: Any, b: Any, report) -> None:
    """Relations between two spelled timestamps/durations must follow the instants/lengths."""
    run.tick()
    fn = what
    case = {"kind": what, "a_text": ta, "b_text": tb, "a": a, "b": b}
    for r in ("I", "C"):
        for op in RELS:
            src = f'{fn}("{ta}") {op} {fn}("{tb}")'
            got = truth(cel.evaluate(src, {}, r))
            m = PYREL[op](a, b)
            if got is not m:
                report(f"{what}-text-{op}-{r}-disagrees-with-model", dict(case, src=src, route=r), f"model {m} got {got!r}")
    if a == b and ta != tb:
        run.nt((what, ta, tb))
        run.event("same-value-different-spelling")
    run.sample({"src": f'{fn}("{ta}") == {fn}("{tb}")'}, bucket="lit-" + what)


def replay(run: common.Run, case: dict, key: str = ""):
    problems = []
    rep = lambda k, c, d: problems.append((k, d))
    if "a_text" in case:
        check_literal_pair(run, case["kind"], case["a_text"], case["b_text"], case["a"], case["b"], rep)
    elif "c" in case:
        check_triple(run, case["kind"], [case["a"], case["b"], case["c"]], rep)
    else:
        check_pair(run, case["kind"], case["a"], case["b"], "replay", rep)
    return problems


def campaign(run: common.Run) -> None:
    quick = run.tier == "quick"

    def body_pair(t):
        kind, vals, rel = t
        check_pair(run, kind, vals[0], vals[1], rel[0], run.hyp_fail)

    def body_triple(t):
        kind, vals, rel = t
        check_triple(run, kind, vals, run.hyp_fail)

    def body_ts(us, o1, o2, d):
        # years >= 1000 only in the *text* route (C10 owns text conversion of early years)
        us = max(us, -30610224000 * 10**6 + 86400 * 10**6)
        us2 = min(max(us + d, values.TS_MIN + 86400 * 10**6), values.TS_MAX - 86400 * 10**6)
        us = min(us, values.TS_MAX - 86400 * 10**6)
        check_literal_pair(run, "timestamp", ts_text(us, o1), ts_text(us2, o2), us, us2, run.hyp_fail)

    def body_dur(us, s1, s2, d):
        us = max(min(us, 10**14), -(10**14))  # keep the library's double-precision sum exact to the microsecond
        us2 = us + d
        check_literal_pair(run, "duration", dur_text(us, s1), dur_text(us2, s2), us, us2, run.hyp_fail)

    offs = st.one_of(st.sampled_from([0, 60, -60, 330, 840, -840, 1]), st.integers(-840, 840))
    common.drive(run, body_pair, {"t": same_type_tuple(2)}, 2500 if quick else 40000, seed_salt=1)
    common.drive(run, body_triple, {"t": same_type_tuple(3)}, 800 if quick else 15000, seed_salt=2)
    common.drive(run, body_ts, {"us": values.timestamp_us(), "o1": offs, "o2": offs, "d": st.sampled_from([0, 0, 0, 1, -1, 10**6, -10**6, 3600 * 10**6])},
                 250 if quick else 5000, seed_salt=3)
    common.drive(run, body_dur, {"us": values.duration_us(), "s1": st.integers(0, 2), "s2": st.integers(0, 2),
                                  "d": st.sampled_from([0, 0, 0, 1, -1, 1000, 10**6])}, 250 if quick else 5000, seed_salt=4)


def main(run: common.Run) -> None:
    run.assumptions = [
        "no NaN operands; no cross-type comparisons; ordering of lists/maps/null not claimed",
        "payload-level Python comparison is the CEL order for each scalar type (ints, code points, octets, instants, lengths)",
        "timestamp texts use years >= 1000 (earlier years are exercised through bound values)",
    ]
    for p in common.committed_replays(run.pid):
        doc = common.load_replay(p)
        for k, d in replay(run, doc["case"], doc.get("key", "")):
            run.fail(k, doc["case"], d)
        run.event("replayed")
    if run.tier == "quick":
        campaign(run)
    else:
        for s in common.run_sharded(run.pid, run.tier, run.seed, campaign, 16, RULE):
            run.merge(s)
