"""C03 — compiled and interpreted runners produce the same outcome.

Differential: Outcome_I == Outcome_C (equal value of the same class skeleton, or an evaluation error in both; a crash in either
is a mismatch) over type-directed programs, grammar-directed (ill-typed) programs, and the conformance corpus verbatim and mutated.
"""

from __future__ import annotations

import os
from typing import List, Any, Dict, Optional, Tuple

from hypothesis import strategies as st

from celpy.evaluation import CELEvalError

from vf import cel, common, corpus, gen, ir, localize, outcome, progs, tree2ir

RULE = (
    "programs from the type-directed generator (macros over lists and over maps), the grammar-directed generator (ill-typed combinations, unbound variables, malformed macro arity), "
    "macros nested 2-3 deep capturing outer iteration variables, navigation of JSON-like documents along paths drawn from the document (members that are null/empty, near misses), "
    "every expression of the conformance corpus + edge supplement, and corpus expressions with one mutation (wrapped in ||/&&/?:/has()/exists() absorbing "
    "contexts, operator swap, literal replacement) x generated activations. non-trivial = parses, has >= 1 operator/function/macro, and the interpreter's "
    "outcome is a value or an error. distinct by source (+ bindings)."
)


def mode_of(i: Tuple, c: Tuple) -> str:
    if c[0] == "crash":
        return f"C-crash-{c[2]}-{c[1]}"
    if i[0] == "crash":
        return f"I-crash-{i[2]}-{i[1]}"
    if i[0] != c[0]:
        return f"I-{i[0]}-C-{c[0]}"
    if i[0] == "value":
        return "value-differs" if i[2] != c[2] else "class-differs"
    return "differs"


def both(src: str, binds: Dict[str, Any]) -> Tuple[Tuple, Tuple]:
    return cel.evaluate(src, binds, "I"), cel.evaluate(src, binds, "C")


def check_src(run: common.Run, src: str, binds: Dict[str, Any], case: dict, report, node: Optional[Tuple] = None) -> None:
    feats = None
    if node is None:
        feats = progs.parse_features(src)
        if feats is None:
            run.event("skipped-unparseable")
            return
        ood = progs.out_of_domain(feats)
        if ood:
            run.event("skipped-out-of-domain:" + ood)
            return
    i, c = both(src, binds)
    run.tick()
    if (node is None or node[0] not in ("lit", "var")) and i[0] in ("value", "error"):
        run.nt((src, repr(sorted(case.get("env", {}).items()))))
        run.event("nontrivial")
    run.event(f"I:{i[0]}")
    if i == c:
        run.sample({"src": src[:120], "both": outcome.short(i)[:80]}, bucket=i[0] + src[:1])
        return
    from_text = node is None
    if node is None:
        node = tree2ir.parse(src)
        if node is not None and len(set(both(ir.render(node), binds))) != 2:
            node = None  # the re-rendered text does not reproduce the mismatch: classify by text features only
    if node is not None:
        cul = localize.culprit(node, lambda sub: len(set(both(ir.render(sub), binds))) == 2)
        ci, cc = both(ir.render(cul), binds)
        m = mode_of(ci, cc)
        tag = ""
        if (localize.has_operand(cul) or localize.python_bool_from_has(cul, lambda sub: cel.evaluate(ir.render(sub), binds, "C"))
                or localize.has_bool_is_root_cause(cul, lambda w: len(set(both(ir.render(w), binds))) == 1)):
            tag = "-has-operand"
        elif m == "I-error-C-value" and cul[0] in ("list", "map", "call", "method", "macro", "index", "select") and any(
            cel.evaluate(ir.render(ch), binds, "I")[0] == "error" for ch in localize.closed_children(cul)
        ):
            tag = "-error-operand"
        elif any(x[0] == "msg" for x in ir.walk(cul)):
            tag = "-message-literal"
        if cul[0] == "has" and m == "class-differs":
            key = "IC-has-class-differs"
        else:
            key = f"IC-{localize.describe(cul)}{tag}-{m}"
        report(key, dict(case, culprit=ir.render(cul)), f"{ir.render(cul)[:150]}: I={outcome.short(ci)[:120]} C={outcome.short(cc)[:120]}")
    else:
        flags = "+".join(sorted(f for f in feats if f in ("member_object", "has", "dot_ident", "dot_ident_arg", "macro-arity")))
        report(f"IC-src[{flags}]-{mode_of(i, c)}", case, f"{src[:150]}: I={outcome.short(i)[:120]} C={outcome.short(c)[:120]}")


def check_sequence(run: common.Run, node: Tuple, envs: List[Dict[str, Tuple[str, Any]]], report) -> None:
    """ONE program per runner, evaluated with a sequence of activations (some omit names that earlier ones bound, some bind them to other values): at every
    step the two runners agree. A step whose activation, evaluated by fresh programs, already disagrees belongs to the single-evaluation campaigns and is skipped here."""
    src = ir.render(node)
    progs_ = {}
    for r in ("I", "C"):
        try:
            e = cel.env(r)
            progs_[r] = e.program(e.compile(src))
        except Exception:
            run.event("sequence-skipped-program-does-not-build")
            return
    run.event("sequence")
    for k, env in enumerate(envs):
        binds = gen.bind_env(env)
        outs = {}
        for r in ("I", "C"):
            try:
                outs[r] = outcome.value_outcome(progs_[r].evaluate(dict(binds)))
            except CELEvalError:
                outs[r] = ("error",)
            except Exception as ex:
                outs[r] = ("crash", type(ex).__name__, "evaluate")
        run.tick()
        if k:
            run.nt(("seq", src, k, repr(sorted(env.items()))))
            run.event("nontrivial")
        if outs["I"] != outs["C"]:
            fi, fc = both(src, binds)
            if fi != fc:
                run.event("sequence-step-disagrees-also-when-fresh")  # the single-evaluation campaigns own (and classify) this
                continue
            which = "C" if outs["C"] != fc else "I"
            report(f"IC-sequence-{which}-step-depends-on-earlier-evaluations-of-the-program-{mode_of(outs['I'], outs['C'])}",
                   {"sequence": True, "src": src, "node": node, "envs": [{n: list(v) for n, v in e_.items()} for e_ in envs], "step": k},
                   f"{src}: step {k} with {sorted(env)}: I={outcome.short(outs['I'])[:80]} C={outcome.short(outs['C'])[:80]} (fresh programs agree: {outcome.short(fi)[:60]})")
            return


@st.composite
def sequence_case(draw):
    """A typed program that reads >= 1 variable and 2-4 activations for it: the full one, one with a variable left out, one with other values."""
    node, T, env = draw(gen.typed_program(3).filter(lambda p: len(p[2]) >= 1))
    envs = [env]
    names = sorted(env)
    for _ in range(draw(st.integers(1, 3))):
        k = draw(st.integers(0, 2))
        if k == 0:
            gone = draw(st.sampled_from(names))
            envs.append({n: v for n, v in env.items() if n != gone})
        elif k == 1:
            envs.append({n: (kind, draw(gen.payload_of(kind))) for n, (kind, _) in env.items()})
        else:
            envs.append(env)
    return node, envs


ERROR_CONTEXTS = ["{e}", "({e}) || true", "true || ({e})", "({e}) && false", "false && ({e})", "true ? 1 : ({e})", "false ? ({e}) : 2", "!({e})", "({e}) ? 1 : 2",
                  "[1, 2].exists(x, ({e}) || x == 2)", "[1, 2].all(x, ({e}) && x == 3)", "[({e})]", "{{'k': ({e})}}", "({e}) == ({e})", "has({{'a': ({e})}}.a)",
                  "({e}) || ({e}) || true", "({e}) && ({e}) && false", "true || ({e}) || ({e})"]


def error_kind_pass(run: common.Run, report) -> None:
    """Every kind of failing sub-expression (the pool of C02: by CEL-level cause and by the Python exception class it arrives as) in every absorbing, strict and
    container context, written with and without redundant parentheses: the two runners agree."""
    from checks import c02

    for kind, e in sorted(c02.E_POOL.items()):
        for ctx in ERROR_CONTEXTS:
            for src in {ctx.format(e=e), ctx.format(e=e).replace("(" + e + ")", e) if " ? " not in e and " || " not in e and " && " not in e else ctx.format(e=e)}:
                run.event("error-kind-context")
                check_src(run, src, dict(c02.BINDINGS), {"src": src, "error_kind": kind}, report)


def check_names(run: common.Run, bindings: Dict[str, Any], package: Optional[str], ref: str, annotate: bool, report) -> None:
    """A (possibly dotted) reference evaluated against a set of (possibly dotted, overlapping) bindings under a package: I and C agree."""
    from checks import c12

    run.tick()
    run.event("dotted-name-case")
    i = c12.observe(ref, bindings, package, annotate, "I")
    c = c12.observe(ref, bindings, package, annotate, "C")
    if len(bindings) >= 2:
        run.nt(("names", repr(sorted(bindings.items(), key=repr)), package, ref, annotate))
        run.event("nontrivial")
    if i != c:
        kind = lambda o: "error" if o == c12.ERR else ("crash" if isinstance(o, tuple) and o and o[0] == "crash" else "value")
        overlap = any(k != j and j.startswith(k + ".") for k in bindings for j in bindings)
        report(f"IC-names[{'overlapping' if overlap else 'disjoint'}-bindings|pkg{len(package.split('.')) if package else 0}{'|dot' if ref.startswith('.') else ''}{'|ann' if annotate else ''}]-I-{kind(i)}-C-{kind(c)}",
               {"names": True, "bindings": bindings, "package": package, "ref": ref, "annotate": annotate}, f"{ref} with {bindings} package={package}: I={str(i)[:100]} C={str(c)[:100]}")


def check_program(run: common.Run, node: Tuple, env: Dict[str, Tuple[str, Any]], report) -> None:
    src = ir.render(node)
    for f in ir.features(node):
        if f.startswith("macro:") or f in ("has", "cond", "op:&&", "op:||"):
            run.event(f)
    used = sorted({x[1] for x in ir.walk(node) if x[0] in ("var", "dotvar")})
    check_src(run, src, gen.bind_env(env), {"src": src, "node": node, "env": {k: list(v) for k, v in env.items() if k in used}}, report, node=node)


def _node(x):
    return tuple(_node(i) for i in x) if isinstance(x, (list, tuple)) else x


def replay(run: common.Run, case: dict, key: str = ""):
    problems = []
    rep = lambda k, c, d: problems.append((k, d))
    if "error_kind" in case:
        from checks import c02

        check_src(run, case["src"], dict(c02.BINDINGS), {"src": case["src"], "error_kind": case["error_kind"]}, rep)
    elif case.get("sequence"):
        check_sequence(run, _node(case["node"]), [{n: (v[0], v[1]) for n, v in e_.items()} for e_ in case["envs"]], rep)
    elif case.get("names"):
        check_names(run, case["bindings"], case["package"], case["ref"], case["annotate"], rep)
    elif "package" in case:
        package_pass(run, rep)
    elif "node" in case:
        check_program(run, _node(case["node"]), {k: (v[0], v[1]) for k, v in case["env"].items()}, rep)
    else:
        check_src(run, case["src"], _fuzz_binds(case), {"src": case["src"]}, rep)
    return problems


def _fuzz_binds(case: dict) -> Dict[str, Any]:
    """Findings of the coverage-guided campaign name one of its fixed activations."""
    if "fuzz_activation" not in case:
        return {}
    from vf import fuzzdata

    return fuzzdata.activations()[case["fuzz_activation"]]


def corpus_pass(run: common.Run, report, shard: Optional[Tuple[int, int]] = None) -> None:
    for i, e in enumerate(corpus.expressions()):
        if shard and i >= len(corpus.EDGE) and i % shard[1] != shard[0]:
            continue
        check_src(run, e, {}, {"src": e}, report)
        run.event("corpus")


def package_pass(run: common.Run, report) -> None:
    """Activations with package-qualified names (Environment(package=...)): both runners must resolve them alike."""
    from checks import c12

    for package in (None, "p", "p.q"):
        for bi, b in enumerate(c12.PKG_MACRO_BINDINGS):
            binds = {k: c12.to_cel_any(v) for k, v in b.items()}
            for expr in c12.PKG_MACRO_EXPRS + ["x + 1", "l", "size(l)", "p.x", ".x", "v"]:
                run.tick()
                run.event("package-activation")
                i = cel.evaluate(expr, binds, "I", package=package)
                c = cel.evaluate(expr, binds, "C", package=package)
                if package:
                    run.nt((expr, package, bi))
                if i != c:
                    report(f"IC-package-activation-{mode_of(i, c)}", {"src": expr, "package": package, "bindings": b}, f"package={package} {expr} with {b}: I={outcome.short(i)[:100]} C={outcome.short(c)[:100]}")


def campaign(run: common.Run) -> None:
    q = run.tier == "quick"

    def body_typed(p):
        node, T, env = p
        check_program(run, node, env, run.hyp_fail)

    def body_any(p):
        node, env = p
        check_program(run, node, env, run.hyp_fail)

    def body_mut(s):
        check_src(run, s, {}, {"src": s}, run.hyp_fail)

    def body_seq(c):
        check_sequence(run, c[0], c[1], run.hyp_fail)

    def body_names(c):
        check_names(run, c[0], c[1], c[2], c[3], run.hyp_fail)

    common.drive(run, body_typed, {"p": gen.typed_program(4)}, 1200 if q else 4000, seed_salt=1)
    common.drive(run, body_any, {"p": gen.any_program(4)}, 1500 if q else 4000, seed_salt=2)
    from checks import c12

    # dotted names: overlapping bindings (a.b and a.b.c), packages, leading-dot references - resolved the same way by both runners
    common.drive(run, body_names, {"c": c12.random_bindings()}, 500 if q else 1500, seed_salt=6)
    # one program object per runner, several activations in a row
    common.drive(run, body_seq, {"c": sequence_case()}, 400 if q else 800, seed_salt=7)
    common.drive(run, body_typed, {"p": gen.nested_macro_program()}, 400 if q else 1200, seed_salt=4)
    common.drive(run, body_typed, {"p": gen.document_program()}, 600 if q else 1500, seed_salt=5)
    common.drive(run, body_mut, {"s": progs.mutated_corpus()}, 500 if q else 1500, seed_salt=3)


def main(run: common.Run) -> None:
    run.assumptions = [
        "each runner gets its own lark parser (sharing the singleton between runner kinds is C05's subject)",
        "error message text is not compared; an error must meet an error",
        "out of domain (counted): macro with a non-identifier variable, has() of a non-selection, non-standard reduce()/min() macros",
    ]
    for p in common.committed_replays(run.pid):
        doc = common.load_replay(p)
        for k, d in replay(run, doc["case"], doc.get("key", "")):
            run.fail(k, doc["case"], d)
        run.event("replayed")
    package_pass(run, run.fail)
    error_kind_pass(run, run.fail)
    if run.tier == "quick":
        corpus_pass(run, run.fail, shard=(run.seed % 2, 2))
        campaign(run)
    else:
        corpus_pass(run, run.fail)
        for s in common.run_sharded(run.pid, run.tier, run.seed, campaign, 16, RULE):
            run.merge(s)
        # coverage-guided supplement (shares the target with C04: both oracles run inside it; only what this check's replay reproduces is reported here)
        run.extra["coverage_guided"] = common.fuzz_campaign(run, replay, workers=16, runs=int(os.environ.get("VERIF_FUZZ_RUNS", "15000")))
