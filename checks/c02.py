"""C02 — logical operators absorb errors commutatively; conditionals are lazy.

Exhaustive operator trees over && || ! ?: with every assignment of outcome classes {T, F, E, N(on-boolean)} to the
leaves (errors realised by every kind of failing sub-expression), all()/exists() over every list of outcome codes,
and the celtypes.logical_* functions; oracle = strong-Kleene three-valued model with errors as the third value.
"""

from __future__ import annotations

import itertools
from typing import Any, Dict, List, Optional, Tuple

from hypothesis import strategies as st

from celpy import celtypes as ct
from celpy.evaluation import CELEvalError

from vf import cel, common, outcome

RULE = (
    "every tree over {&&, ||, !, ?:} with <= 2 operator nodes (quick; <= 3 thorough) x every assignment of {T,F,E,N} to its leaves "
    "(N = non-boolean value, asserted only where the statement speaks), deeper trees (<= 8 operators) by Hypothesis; leaves realised round-robin "
    "from pools, E from every kind of failing sub-expression; every list of length <= 5 over {true,false,div-error,overload-error} through "
    "all()/exists(); logical_* called directly. non-trivial = at least one E or N leaf and an operator that must absorb or propagate it. "
    "distinct by rendered source."
)

T_POOL = ["true", "1 == 1", "vt", "!false", "'a' < 'b'", "[1].exists(i, i == 1)"]
F_POOL = ["false", "1 == 2", "vf", "2 < 1", "!true", "[1].all(i, i == 2)"]
E_POOL = {
    "div0": "1/0 == 1",
    "mod0": "1 % 0 == 0",
    "overflow": "9223372036854775807 + 1 == 0",
    "index": "[1][5] == 1",
    "missing-key": "{}.a",
    "missing-key2": "{'a': 1}['b'] == 1",
    "undefined-name": "undefined_name",
    "bad-conversion": "int('x') == 1",
    "bad-timestamp": "timestamp('x') == timestamp('x')",
    "overload": "'a' < 1",
    "unknown-function": "nofunc(1)",
    "error-in-map-macro": "[1].map(x, x/0) == []",
    "error-in-filter-macro": "[1].filter(x, x/0 == 1) == []",
    "error-in-exists_one": "[1].exists_one(x, x/0 == 1)",
    "all-errors-exists": "[1, 2].exists(i, 1 / 0 > i)",
    "field-of-string": "'abc'.f",
    "field-of-int": "vone.f",
    "neg-uint": "-(1u) == 1u",
    "bad-regex": "'a'.matches('(')",
    "dup-key": "{1: 1, 1: 2} == {}",
    # the same CEL-level errors as they arrive from other Python exception classes (OverflowError, UnicodeError, AttributeError, OSError-turned-ValueError ...)
    "int-of-infinity": "int(1.0 / 0.0) == 1",
    "int-of-nan": "int(0.0 / 0.0) == 1",
    "int-of-huge-double": "int(1e300) == 1",
    "uint-of-negative": "uint(-1) == 1u",
    "timestamp-out-of-range": "timestamp('9999-12-31T23:59:59Z') + duration('48h') == timestamp('9999-12-31T23:59:59Z')",
    "timestamp-below-range": "timestamp('0001-01-01T00:00:00Z') - duration('48h') == timestamp('0001-01-01T00:00:00Z')",
    "duration-out-of-range": "duration('315576000000s') + duration('1s') == duration('0s')",
    "invalid-utf8": "string(b'\\xff') == ''",
    "bad-duration": "duration('1x') == duration('1s')",
    "bad-zone": "timestamp('2009-02-13T23:31:30Z').getHours('Nowhere/Land') == 1",
    "zone-is-a-directory": "timestamp('2009-02-13T23:31:30Z').getHours('America') == 1",
    "method-of-wrong-type": "vone.getFullYear() == 1",
    "index-of-int": "vone[0] == 1",
    "string-key-in-list": "[1]['a'] == 1",
    "message-unknown-field": "google.protobuf.Int64Value{valu: 1} == 1",
    "size-of-int": "size(vone) == 1",
    "in-non-container": "1 in vone",
    "unary-minus-min": "-(-9223372036854775807 - 1) == 1",
    "ternary-bad-condition": "(vone ? true : false)",
    "no-argument": "dyn() == 1",
    "error-in-reduce-macro": "[0].reduce(r, i, 0, 1 / i) > 0",
    "min-of-mixed-list": "[1, 'a'].min() == 1",
}
N_POOL = ["1", "'s'", "[]", "null", "1.5", "{}"]
BINDINGS = {"vt": ct.BoolType(True), "vf": ct.BoolType(False), "vone": ct.IntType(1)}

# ---------------------------------------------------------------------------------------------------
# trees: ("leaf", i) | ("not", a) | ("and", a, b) | ("or", a, b) | ("cond", c, x, y)


def shapes(n_ops: int, memo: Dict[int, list] = {}) -> list:
    """All tree shapes with exactly n_ops operator nodes (leaves unnumbered)."""
    if n_ops in memo:
        return memo[n_ops]
    if n_ops == 0:
        out = [("leaf",)]
    else:
        out = []
        for s in shapes(n_ops - 1):
            out.append(("not", s))
        for k in range(n_ops):
            for a in shapes(k):
                for b in shapes(n_ops - 1 - k):
                    out.append(("and", a, b))
                    out.append(("or", a, b))
        for k1 in range(n_ops):
            for k2 in range(n_ops - k1):
                k3 = n_ops - 1 - k1 - k2
                for a in shapes(k1):
                    for b in shapes(k2):
                        for c in shapes(k3):
                            out.append(("cond", a, b, c))
    memo[n_ops] = out
    return out


def count_leaves(t) -> int:
    return 1 if t[0] == "leaf" else sum(count_leaves(c) for c in t[1:])


def model(t, leaves: List[str], pos: List[int]) -> Any:
    """Three-valued model. Returns 'T','F','E', ('N', leaf_index) or 'U' (statement does not decide)."""
    if t[0] == "leaf":
        i = pos[0]
        pos[0] += 1
        c = leaves[i]
        return ("N", i) if c == "N" else c
    if t[0] == "not":
        a = model(t[1], leaves, pos)
        return {"T": "F", "F": "T", "E": "E"}.get(a, "U") if isinstance(a, str) else "U"
    if t[0] in ("and", "or"):
        a = model(t[1], leaves, pos)
        b = model(t[2], leaves, pos)
        dec, neu = ("F", "T") if t[0] == "and" else ("T", "F")
        if a == dec or b == dec:
            return dec
        if a == neu and b == neu:
            return neu
        an, bn = isinstance(a, tuple), isinstance(b, tuple)
        if an and bn:
            return "E"  # two non-boolean operands are an error
        if a == "U" or b == "U" or an or bn:
            return "U"  # N && T, N && E ...: the statement is silent
        return "E"
    if t[0] == "cond":
        c = model(t[1], leaves, pos)
        x = model(t[2], leaves, pos)
        y = model(t[3], leaves, pos)
        if c == "T":
            return x
        if c == "F":
            return y
        if c == "E" or isinstance(c, tuple):
            return "E"
        return "U"
    raise ValueError(t)


def render(t, texts: List[str], pos: List[int]) -> str:
    if t[0] == "leaf":
        i = pos[0]
        pos[0] += 1
        return f"({texts[i]})"
    if t[0] == "not":
        return f"(!{render(t[1], texts, pos)})"
    if t[0] == "and":
        return f"({render(t[1], texts, pos)} && {render(t[2], texts, pos)})"
    if t[0] == "or":
        return f"({render(t[1], texts, pos)} || {render(t[2], texts, pos)})"
    return f"({render(t[1], texts, pos)} ? {render(t[2], texts, pos)} : {render(t[3], texts, pos)})"


def render_min(t, texts: List[str], pos: List[int], parent: str = "") -> str:
    """The same tree with only the parentheses the grammar needs: chains of one operator (a || b || c), && under ||, ! applied directly - the spellings in
    which a transpiler or evaluator could treat a chain as one construct. Leaves keep their own parentheses."""
    if t[0] == "leaf":
        i = pos[0]
        pos[0] += 1
        return f"({texts[i]})"
    if t[0] == "not":
        inner = render_min(t[1], texts, pos, "not")
        return f"!{inner}" if t[1][0] in ("leaf", "not") else f"!({inner})"
    if t[0] in ("and", "or"):
        op = " && " if t[0] == "and" else " || "
        left = render_min(t[1], texts, pos, t[0])
        right = render_min(t[2], texts, pos, t[0])
        if t[1][0] == "cond" or (t[0] == "and" and t[1][0] == "or"):
            left = f"({left})"
        if t[2][0] in ("cond", t[0]) or (t[0] == "and" and t[2][0] == "or") or (t[0] == "or" and t[2][0] == "or"):
            right = f"({right})"  # right-nested same operator keeps its grouping
        return left + op + right
    c, x, y = (render_min(t[1], texts, pos, "cond"), render_min(t[2], texts, pos, "cond"), render_min(t[3], texts, pos, "cond"))
    if t[1][0] == "cond":
        c = f"({c})"
    if t[2][0] == "cond":
        x = f"({x})"
    return f"{c} ? {x} : {y}"


def n_value_canon(text: str) -> Any:
    return {"1": ("int", 1), "'s'": ("string", "s"), "[]": ("list", ()), "null": ("null",), "1.5": ("double", outcome.dbl(1.5)), "{}": ("map", ())}[text]


def leaf_texts(leaves: List[str], rr: int) -> Tuple[List[str], List[Optional[str]]]:
    kinds = sorted(E_POOL)
    texts, ekinds = [], []
    for i, c in enumerate(leaves):
        if c == "T":
            texts.append(T_POOL[(rr + i) % len(T_POOL)])
            ekinds.append(None)
        elif c == "F":
            texts.append(F_POOL[(rr + i) % len(F_POOL)])
            ekinds.append(None)
        elif c == "E":
            k = kinds[(rr + 7 * i) % len(kinds)]
            texts.append(E_POOL[k])
            ekinds.append(k)
        else:
            texts.append(N_POOL[(rr + i) % len(N_POOL)])
            ekinds.append(None)
    return texts, ekinds


def observe(src: str, runner: str) -> Any:
    o = cel.evaluate(src, BINDINGS, runner)
    if o[0] == "value":
        if o[2][0] == "bool":
            return "T" if o[2][1] else "F"
        return ("V", o[2])
    if o[0] == "error":
        return "E"
    return o  # crash / parse error


def matches(exp: Any, got: Any, texts: List[str]) -> bool:
    if isinstance(exp, tuple) and exp[0] == "N":
        return got == ("V", n_value_canon(texts[exp[1]]))
    return exp == got


def check_tree(run: common.Run, t, leaves: List[str], rr: int, report) -> None:
    exp = model(t, leaves, [0])
    if exp == "U":
        run.event("skipped-unspecified")
        return
    texts, ekinds = leaf_texts(leaves, rr)
    src = render(t, texts, [0])
    run.tick()
    nontriv = any(c in "EN" for c in leaves) and t[0] != "leaf"
    if nontriv:
        run.nt(src)
        run.event("nontrivial")
    run.event("expected-" + (exp if isinstance(exp, str) else "N"))
    for k in ekinds:
        if k:
            run.event("E:" + k)
    src_min = render_min(t, texts, [0])
    if len(_ops(t)) >= 2:  # (with fewer operators the two spellings differ in an outer pair of parentheses only)
        run.event("minimal-parentheses-spelling")
        for r in ("I", "C"):
            run.tick()
            got = observe(src_min, r)
            if not matches(exp, got, texts):
                g = got if isinstance(got, str) else (got[0] if got[0] != "V" else "value")
                report(f"{r}-minimal-parentheses-[{''.join(sorted(set(_ops(t))))}]-expected-{exp if isinstance(exp, str) else 'N'}-got-{g}",
                       {"src": src_min, "tree": repr(t), "leaves": leaves, "rr": rr, "route": r}, f"{src_min}: expected {exp} got {got} (fully parenthesised: {src})")
    for r in ("I", "C"):
        got = observe(src, r)
        if not matches(exp, got, texts):
            # attribute the failure to single error kinds where possible
            culprits = []
            for k in sorted(set(filter(None, ekinds))):
                texts2 = [E_POOL[k] if ek else tx for tx, ek in zip(texts, ekinds)]
                if not matches(exp, observe(render(t, texts2, [0]), r), texts2):
                    culprits.append(k)
            g = got if isinstance(got, str) else (got[0] if got[0] != "V" else "value")
            e = exp if isinstance(exp, str) else "N"
            ops = "".join(sorted(set(_ops(t))))
            key = f"{r}-[{','.join(culprits) or ('no-error-leaf' if not any(ekinds) else 'mixed')}]-expected-{e}-got-{g}"
            report(key, {"src": src, "tree": repr(t), "leaves": leaves, "rr": rr, "route": r, "ops": ops}, f"{src}: expected {exp} got {got}")
    run.sample({"src": src, "expected": exp}, bucket=t[0] + str(len(leaves)))


def _ops(t):
    if t[0] == "leaf":
        return []
    return [{"and": "&", "or": "|", "not": "!", "cond": "?"}[t[0]]] + [o for c in t[1:] for o in _ops(c)]


def exhaustive(run: common.Run, max_ops: int, alphabet: str, report, shard: Optional[Tuple[int, int]] = None) -> int:
    n = 0
    rr = 0
    for ops in range(0, max_ops + 1):
        for t in shapes(ops):
            nl = count_leaves(t)
            for leaves in itertools.product(alphabet, repeat=nl):
                rr += 1
                if shard and rr % shard[1] != shard[0]:
                    continue
                check_tree(run, t, list(leaves), rr, report)
                n += 1
    return n


# --- all / exists ----------------------------------------------------------------------------------

CODES = {"t": ("1", "T"), "f": ("5", "F"), "z": ("0", "E"), "o": ("'a'", "E")}


def fold(kind: str, outs: List[str]) -> str:
    dec, neu = ("F", "T") if kind == "all" else ("T", "F")
    if dec in outs:
        return dec
    if "E" in outs:
        return "E"
    return neu


def check_macro_lists(run: common.Run, max_len: int, report) -> None:
    for n in range(0, max_len + 1):
        for codes in itertools.product("tfzo", repeat=n):
            outs = [CODES[c][1] for c in codes]
            lit = "[" + ", ".join(CODES[c][0] for c in codes) + "]"
            bound = ct.ListType([ct.IntType(int(CODES[c][0])) if c != "o" else ct.StringType("a") for c in codes])
            for kind in ("all", "exists"):
                exp = fold(kind, outs)
                # three predicate bodies: the same element codes fail through different Python exception classes
                # (ZeroDivisionError/TypeError; OverflowError/ValueError; KeyError)
                bodies = ["4 / i > 1"] if n > 3 else ["4 / i > 1", "int(1.0 / double(i)) > 0", "{1: true, 5: false}[i]"]
                for src, b in [x for body in bodies for x in ((f"{lit}.{kind}(i, {body})", {}), (f"l.{kind}(i, {body})", {"l": bound}))]:
                    run.tick()
                    if "E" in outs:
                        run.nt(src + str(codes))
                    for r in ("I", "C"):
                        o = cel.evaluate(src, b, r) if not b else cel.run_cached(r, src, b)
                        got = ("T" if o[2][1] else "F") if o[0] == "value" and o[2][0] == "bool" else ("E" if o[0] == "error" else o)
                        if got != exp:
                            report(f"{r}-macro-{kind}-expected-{exp}-got-{got if isinstance(got, str) else got[0]}",
                                   {"macro_src": src, "codes": "".join(codes), "route": r}, f"{src} {codes}: expected {exp} got {got}")
    run.sample({"src": "[1, 5, 0, 'a'].all(i, 4 / i > 1)", "expected": "F"}, bucket="macro")


# --- celtypes.logical_* directly -----------------------------------------------------------------------


def check_functions(run: common.Run, report) -> None:
    vals = {"T": lambda: ct.BoolType(True), "F": lambda: ct.BoolType(False), "E": lambda: CELEvalError("boom"), "N": lambda: ct.IntType(1)}

    def call(fn, *a):
        try:
            v = fn(*a)
        except TypeError:
            return "E"
        except Exception as ex:
            return ("crash", type(ex).__name__)
        if isinstance(v, CELEvalError):
            return "E"
        if isinstance(v, ct.BoolType):
            return "T" if v else "F"
        return ("V", outcome.canon(v))

    for a, b in itertools.product("TFEN", repeat=2):
        for name, t in (("logical_and", ("and", ("leaf",), ("leaf",))), ("logical_or", ("or", ("leaf",), ("leaf",)))):
            exp = model(t, [a, b], [0])
            if exp == "U":
                continue
            run.tick()
            run.nt((name, a, b))
            got = call(getattr(ct, name), vals[a](), vals[b]())
            if got != exp:
                report(f"celtypes-{name}-{a}{b}-expected-{exp}", {"fn": name, "a": a, "b": b}, f"{name}({a},{b}) expected {exp} got {got}")
    for a in "TFE":
        run.tick()
        exp = {"T": "F", "F": "T", "E": "E"}[a]
        got = call(ct.logical_not, vals[a]())
        if got != exp:
            report(f"celtypes-logical_not-{a}", {"fn": "logical_not", "a": a}, f"expected {exp} got {got}")
    for c, x, y in itertools.product("TFEN", "TFE", "TFE"):
        run.tick()
        exp = x if c == "T" else y if c == "F" else "E"
        got = call(ct.logical_condition, vals[c](), vals[x](), vals[y]())
        if got != exp:
            report(f"celtypes-logical_condition-{c}", {"fn": "logical_condition", "c": c, "x": x, "y": y}, f"expected {exp} got {got}")


# ---------------------------------------------------------------------------------------------------


@st.composite
def deep_tree(draw, max_ops: int = 8):
    def build(budget: int):
        if budget == 0 or draw(st.integers(0, 5)) == 0:
            return ("leaf",), 0
        op = draw(st.sampled_from(["and", "or", "and", "or", "not", "cond"]))
        if op == "not":
            s, u = build(budget - 1)
            return ("not", s), u + 1
        if op in ("and", "or"):
            a, ua = build((budget - 1) // 2 + 1 if budget > 1 else 0)
            b, ub = build(max(budget - 1 - ua, 0))
            return (op, a, b), ua + ub + 1
        a, ua = build((budget - 1) // 3)
        b, ub = build((budget - 1 - ua) // 2)
        c, uc = build(max(budget - 1 - ua - ub, 0))
        return ("cond", a, b, c), ua + ub + uc + 1

    t, _ = build(draw(st.integers(2, max_ops)))
    nl = count_leaves(t)
    leaves = draw(st.lists(st.sampled_from("TFETFEN"), min_size=nl, max_size=nl))
    rr = draw(st.integers(0, 10_000))
    return t, leaves, rr


def _lit(x):
    import ast

    return ast.literal_eval(x) if isinstance(x, str) else x


def replay(run: common.Run, case: dict, key: str = ""):
    problems = []
    rep = lambda k, c, d: problems.append((k, d))
    if "tree" in case:
        check_tree(run, _tuplify(_lit(case["tree"])), list(case["leaves"]), case["rr"], rep)
    elif "macro_src" in case:
        check_macro_lists(run, len(case["codes"]), rep)
    else:
        check_functions(run, rep)
    return problems


def _tuplify(t):
    return tuple(_tuplify(x) if isinstance(x, (list, tuple)) else x for x in t)


def shard_campaign(run: common.Run) -> None:
    """Thorough shard: a slice of the <=3-operator exhaustive space + deep random trees."""
    shard = (run.seed % 1000 - 1) % 16
    exhaustive(run, 3, "TFE", run.fail, shard=(shard, 16))
    exhaustive(run, 2, "TFEN", run.fail, shard=(shard, 16))

    def body(c):
        t, leaves, rr = c
        check_tree(run, t, leaves, rr, run.hyp_fail)

    common.drive(run, body, {"c": deep_tree(10)}, 4000, seed_salt=1)


def main(run: common.Run) -> None:
    run.assumptions = [
        "N && T, N || F, !N, N && E are not asserted (the statement is silent; the implementation returns the non-boolean operand)",
        "sub-expressions are fully parenthesised (precedence is C06's subject)",
        "negative list index is not used as an error source (C09 owns it)",
    ]
    for p in common.committed_replays(run.pid):
        doc = common.load_replay(p)
        for k, d in replay(run, doc["case"], doc.get("key", "")):
            run.fail(k, doc["case"], d)
        run.event("replayed")
    check_functions(run, run.fail)
    check_macro_lists(run, 4 if run.tier == "quick" else 5, run.fail)
    if run.tier == "quick":
        n = exhaustive(run, 2, "TFE", run.fail)
        n += exhaustive(run, 1, "TFEN", run.fail)
        run.extra["exhaustive_trees"] = n
        run.extra["exhaustive_bound"] = "<= 2 operators over {T,F,E}; <= 1 operator over {T,F,E,N}"

        def body(c):
            t, leaves, rr = c
            check_tree(run, t, leaves, rr, run.hyp_fail)

        common.drive(run, body, {"c": deep_tree(8)}, 1200, seed_salt=1)
    else:
        for s in common.run_sharded(run.pid, run.tier, run.seed, shard_campaign, 16, RULE):
            run.merge(s)
        run.extra["exhaustive_bound"] = "<= 3 operators over {T,F,E}; <= 2 operators over {T,F,E,N} (sharded 16 ways)"
    run.exhaustive = False
