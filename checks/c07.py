"""C07 — literals denote the values they spell.

Round trip: evaluate(spell(v)) == v for strings/bytes in every quoting style and escape choice, ints/uints in
decimal/hex with sign and leading zeros (out-of-range -> Error), doubles in every float spelling (expected value =
correctly rounded Fraction of the decimal text). Both runners.
"""

from __future__ import annotations

from fractions import Fraction
from typing import Any

from hypothesis import strategies as st

from vf import cel, common, literals, outcome, values

RULE = (
    "Unicode strings / byte strings (boundary-biased: quotes, backslashes, control, non-BMP, invalid UTF-8) spelled with a random "
    "quote style ('..', \"..\", triple, raw r/R, b/B) and, per character, raw or one of \\a..\\v \\\\ \\\" \\' \\xHH \\ooo \\uHHHH "
    "\\UHHHHHHHH; int64/uint64 (and first out-of-range neighbours) in decimal/hex, sign, leading zeros, u/U; decimal float texts. "
    "non-trivial = spelling has an escape, a delimiter-kind quote, a backslash, a raw newline, non-ASCII/non-BMP raw char, leading "
    "zero, hex digits or an exponent. distinct by source text."
)
ERR = ("error",)


def expected_of(kind: str, v: Any) -> Any:
    if kind == "string":
        return ("string", v)
    if kind == "bytes":
        return ("bytes", bytes(v).hex())
    if kind == "int":
        return ("int", v) if values.I_MIN <= v <= values.I_MAX else ERR
    if kind == "uint":
        return ("uint", v) if 0 <= v <= values.U_MAX else ERR
    if kind == "double":
        return ("double", outcome.dbl(v))
    raise ValueError(kind)


def observed(o) -> Any:
    if o[0] == "value":
        return o[2]
    if o[0] == "error":
        return ERR
    return o


def classify(kind: str, src: str, info: dict, exp: Any, got: Any, route: str) -> str:
    if got != ERR and got[0] in ("crash", "parse_error"):
        tail = got[1] if got[0] == "crash" else "rejected"
        return f"{kind}-{route}-{got[0]}-{tail}"
    if exp == ERR:
        return f"{kind}-{route}-value-instead-of-error"
    if got == ERR:
        return f"{kind}-{route}-error-instead-of-value"
    return f"{kind}-{route}-wrong-value"


def check_literal(run: common.Run, kind: str, v: Any, src: str, info: dict, report) -> None:
    run.tick()
    exp = expected_of(kind, v)
    nt = (
        info.get("escapes") or info.get("raw") or info.get("zeros") or info.get("hex") or info.get("exp") or info.get("utf8_raw")
        or (kind == "string" and any(ord(c) > 127 or c in "\"'\\\n" for c in v)) or exp == ERR
    )
    if nt:
        run.nt(src)
        run.event("nontrivial")
    run.event(f"kind:{kind}")
    if info.get("style"):
        run.event(f"style:{'raw-' if info.get('raw') else ''}{info['style']}")
    for k in info.get("kinds", []):
        run.event(f"escape:{k}")
    if kind in ("string", "bytes") and "\n" in src:
        info = dict(info, raw_newline=True)
        run.event("raw-newline-in-source")
    case = {"kind": kind, "value": v, "src": src, "info": {k: info[k] for k in info if k != "kinds"}}
    for r in ("I", "C"):
        got = observed(cel.evaluate(src, {}, r))
        if got != exp:
            report(classify(kind, src, info, exp, got, r), dict(case, route=r), f"expected {str(exp)[:200]} got {str(got)[:200]}")
    run.sample({"src": src, "denotes": repr(v)[:80]}, bucket=kind + str(info.get("style")) + str(info.get("raw")))


# --- doubles -----------------------------------------------------------------------------------------


def round_decimal_text(text: str) -> float:
    """Correctly rounded binary64 value of a decimal float text, via exact rational arithmetic."""
    fr = Fraction(text)
    if fr == 0:
        return -0.0 if text.lstrip().startswith("-") else 0.0
    try:
        return fr.numerator / fr.denominator
    except OverflowError:
        return float("inf") if fr > 0 else float("-inf")


@st.composite
def float_text(draw):
    """A FLOAT_LIT text: digits '.' digits [exp] | '.' digits [exp] | digits exp; optional sign, leading zeros."""
    form = draw(st.integers(0, 4))
    sign = draw(st.sampled_from(["", "", "-"]))
    digs = lambda lo, hi: draw(st.text(alphabet="0123456789", min_size=lo, max_size=hi))
    exp = ""
    if form in (1, 3, 4) or draw(st.integers(0, 3)) == 0:
        exp = draw(st.sampled_from(["e", "E"])) + draw(st.sampled_from(["", "+", "-"])) + str(draw(st.one_of(st.integers(0, 30), st.integers(290, 330), st.integers(0, 400))))
    if form == 0:
        body = digs(1, 20) + "." + digs(0, 20)
    elif form == 1:
        body = digs(1, 20)
    elif form == 2:
        body = "." + digs(1, 25)
    elif form == 3:
        body = digs(1, 5) + "." + digs(1, 25)
    else:
        body = digs(0, 3) + "." + digs(1, 5)
    if "." not in body and not exp:
        exp = "e0"
    info = {"exp": bool(exp), "zeros": body.startswith("0") and len(body) > 1 and body[1] != "."}
    return sign + body + exp, info


def float_spellings(d: float):
    r = repr(d)
    outs = [r, "%.17e" % d, ("%.17e" % d).upper().replace("E", "E"), "%.20e" % d]
    if "e" not in r and r.endswith(".0"):
        outs.append(r[:-1])  # "5."
    if r.startswith("0.") and "e" not in r:
        outs.append(r[1:])  # ".5"
    if r.startswith("-0.") and "e" not in r:
        outs.append("-" + r[2:])
    outs.append(("00" + r) if not r.startswith("-") else ("-00" + r[1:]))
    return outs


# -----------------------------------------------------------------------------------------------------


def replay(run: common.Run, case: dict, key: str = ""):
    problems = []
    v = case["value"]
    check_literal(run, case["kind"], v, case["src"], case.get("info", {}), lambda k, c, d: problems.append((k, d)))
    return problems


def campaign(run: common.Run) -> None:
    q = run.tier == "quick"

    # values whose first / last character is a line break, a quote or a backslash: where slicing the delimiters off a literal goes wrong
    EDGY = ["\nabc", "abc\n", "\n", "\n\nx", "x\n\n", "'", "\"", "'a", "a'", "\"a", "a\"", "\'\'\'", "\"\"\"", "a\'\'\'b", " ", " a ", "\ta", "a\\", "\\a", "a'b\"c", "\r\nx"]

    @st.composite
    def str_case(draw):
        s = draw(values.text(10) | st.sampled_from(EDGY) | st.tuples(st.sampled_from(EDGY), values.text(4)).map("".join) | st.tuples(values.text(4), st.sampled_from(EDGY)).map("".join))
        src, info = draw(literals.spell_string(s))
        return s, src, info

    @st.composite
    def bytes_case(draw):
        b = draw(values.binary(10) | st.sampled_from(EDGY).map(lambda t: t.encode("utf-8")) | st.tuples(st.sampled_from(EDGY), values.binary(3)).map(lambda t: t[0].encode("utf-8") + t[1]))
        src, info = draw(literals.spell_bytes(b))
        return b, src, info

    @st.composite
    def int_case(draw):
        v = draw(st.one_of(values.int64(), st.sampled_from([values.I_MAX + 1, values.I_MIN - 1, 2**64, -(2**64)])))
        src, info = draw(literals.spell_int(v))
        return v, src, info

    @st.composite
    def uint_case(draw):
        v = draw(st.one_of(values.uint64(), st.sampled_from([values.U_MAX + 1, 2**65])))
        src, info = draw(literals.spell_int(v, unsigned=True))
        return v, src, info

    @st.composite
    def dbl_case(draw):
        if draw(st.booleans()):
            d = draw(values.finite_double())
            text = draw(st.sampled_from(float_spellings(d)))
            return d, text, {"exp": "e" in text.lower(), "zeros": text.lstrip("-").startswith("00")}
        text, info = draw(float_text())
        return round_decimal_text(text), text, info

    def mk(kind):
        def body(c):
            v, src, info = c
            check_literal(run, kind, v, src, info, run.hyp_fail)

        return body

    common.drive(run, mk("string"), {"c": str_case()}, 1500 if q else 25000, seed_salt=1)
    common.drive(run, mk("bytes"), {"c": bytes_case()}, 1500 if q else 25000, seed_salt=2)
    common.drive(run, mk("int"), {"c": int_case()}, 500 if q else 8000, seed_salt=3)
    common.drive(run, mk("uint"), {"c": uint_case()}, 500 if q else 8000, seed_salt=4)
    common.drive(run, mk("double"), {"c": dbl_case()}, 700 if q else 10000, seed_salt=5)


def main(run: common.Run) -> None:
    run.assumptions = [
        "not generated (statement does not list them): \\u/\\U in bytes literals, surrogate escapes, octal above \\377, \\? and \\`, raw CR in any literal, "
        "raw literals whose text has a backslash before a quote or at the end",
        "expected double = exact Fraction of the decimal text rounded by CPython's correctly rounded int/int division (not float(text))",
    ]
    for p in common.committed_replays(run.pid):
        doc = common.load_replay(p)
        for k, d in replay(run, doc["case"], doc.get("key", "")):
            run.fail(k, doc["case"], d)
        run.event("replayed")
    if run.tier == "quick":
        campaign(run)
    else:
        for s in common.run_sharded(run.pid, run.tier, run.seed, campaign, 16, RULE):
            run.merge(s)
