"""C18 — policy translation preserves the filter's boolean structure.

Exhaustive filter trees over {list, and, or, not} with 1-3 children; leaves are (layer 1) stub clauses whose CEL text has every
top-level operator class the real rewriters emit, or (layer 2) real clauses with controllable truth. The emitted text must parse and,
under every leaf-truth vector (realised by variable assignments), evaluate to the Custodian combinator value.
"""

from __future__ import annotations

import itertools
from typing import Any, Dict, List, Optional, Tuple

import yaml
from hypothesis import strategies as st

import celpy
import celpy.c7nlib as c7nlib
from celpy import celtypes as ct
from celpy.adapter import json_to_cel

from xlate.c7n_to_cel import C7N_Rewriter

from vf import cel, common, outcome, tree2ir, values

RULE = (
    "all filter trees with <= 5 nodes (quick; <= 7 thorough), depth <= 4, over {implicit list, and, or, not} with 1-3 children (singleton connectives included), "
    "entered through logical_connector (dict or list root) and through c7n_rewrite (YAML); leaves = stub clauses of 7 top-level classes (atom, &&, ||, !, ?:, ==, "
    "!f()) in rotation, and real clauses (value, tag-count, marked-for-op, offhour opt-out, flow-logs, not-present); x every leaf-truth vector, two realisations "
    "each. non-trivial = an `or` or a compound leaf nested under another connective with >= 2 children. distinct by (tree, leaf classes, assignment)."
)

# --- stub leaves: text over variables p<i>, q<i>, r<i> ------------------------------------------------------
LEAF_CLASSES = {
    "atom": "p{i}",
    "and": "p{i} && q{i}",
    "or": "p{i} || q{i}",
    "not": "! p{i}",
    "cond": "p{i} ? q{i} : r{i}",
    "rel": "p{i} == q{i}",
    "notcall": "! idf(p{i})",
    "notor": "! p{i} || q{i}",
    "callor": "idf(p{i}) || [q{i}][0]",
    # string literals whose content could derail a scanner looking for top-level operators: a literal ending in an (escaped) backslash, escaped quotes,
    # brackets / operators / the other quote inside a literal - each followed by a loosely binding top-level operator
    "bs-cond": '[p{i}, "corp\\\\"][0] ? q{i} : r{i}',
    "q-or": '[p{i}, "a\\"b", \'c\\\'d\'][0] || q{i}',
    "ops-or": '[p{i}, "(", "?", " || ", "[", \'"\', "\'"][0] || q{i}',
    "sq-cond": "[p{i}, 'it\\'s \\\\'][0] ? q{i} : r{i}",
}
CLASS_ORDER = ["atom", "or", "cond", "and", "not", "rel", "notcall", "notor", "callor", "bs-cond", "q-or", "ops-or", "sq-cond"]


def leaf_truth(cls: str, p: bool, q: bool, r: bool) -> bool:
    return {"atom": p, "and": p and q, "or": p or q, "not": not p, "cond": q if p else r, "rel": p == q, "notcall": not p, "notor": (not p) or q, "callor": p or q,
            "bs-cond": q if p else r, "q-or": p or q, "ops-or": p or q, "sq-cond": q if p else r}[cls]


def realisations(cls: str, want: bool) -> List[Tuple[bool, bool, bool]]:
    return [a for a in itertools.product([False, True], repeat=3) if leaf_truth(cls, *a) == want]


# --- trees: ("leaf", idx) | ("and"|"or"|"not"|"list", [children]) -------------------------------------------------


def tree_shapes(nodes: int, depth: int, memo: dict = {}) -> List[Any]:
    """All trees with exactly `nodes` nodes (leaves count) and depth <= depth; connectives have 1-3 children."""
    key = (nodes, depth)
    if key in memo:
        return memo[key]
    out: List[Any] = []
    if nodes == 1:
        out.append(("leaf",))
    if depth > 1 and nodes >= 2:
        for k in (1, 2, 3):
            for split in _compositions(nodes - 1, k):
                for kids in itertools.product(*[tree_shapes(s, depth - 1) for s in split]):
                    for conn in ("and", "or", "not", "list"):
                        out.append((conn, list(kids)))
    memo[key] = out
    return out


def _compositions(total: int, parts: int):
    if parts == 1:
        if total >= 1:
            yield (total,)
        return
    for i in range(1, total - parts + 2):
        for rest in _compositions(total - i, parts - 1):
            yield (i,) + rest


def number_leaves(t: Any, counter: List[int]) -> Any:
    if t[0] == "leaf":
        i = counter[0]
        counter[0] += 1
        return ("leaf", i)
    return (t[0], [number_leaves(c, counter) for c in t[1]])


def to_filter(t: Any, leaf_filters: List[Any]) -> Any:
    if t[0] == "leaf":
        return leaf_filters[t[1]]
    kids = [to_filter(c, leaf_filters) for c in t[1]]
    return kids if t[0] == "list" else {t[0]: kids}


def combinator(t: Any, truth: List[bool]) -> bool:
    if t[0] == "leaf":
        return truth[t[1]]
    vals = [combinator(c, truth) for c in t[1]]
    if t[0] in ("and", "list"):
        return all(vals)
    if t[0] == "or":
        return any(vals)
    return not all(vals)


def is_nontrivial(t: Any, classes: List[str]) -> bool:
    def walk(n: Any, parent_multi: bool) -> bool:
        if n[0] == "leaf":
            return parent_multi and classes[n[1]] != "atom"
        multi = len(n[1]) >= 2
        if n[0] == "or" and parent_multi:
            return True
        return any(walk(c, multi) for c in n[1])

    return walk(t, False)


def render_tree(t: Any) -> str:
    if t[0] == "leaf":
        return f"L{t[1]}"
    return f"{t[0]}[" + ",".join(render_tree(c) for c in t[1]) + "]"


def sig(t: Any, classes: List[str]) -> str:
    """Root-cause signature: the connectives of the two outermost levels + whether a compound leaf is involved."""
    if t[0] == "leaf":
        return "leaf:" + classes[t[1]]
    kids = ",".join((c[0] if c[0] != "leaf" else ("cleaf" if classes[c[1]] in ("or", "cond", "and", "rel", "notor", "callor") else "leaf")) for c in t[1])
    return f"{t[0]}({kids})"


_orig_primitive = C7N_Rewriter.primitive


def translate(filt: Any, entry: str, leaf_text: Optional[Dict[int, str]]) -> str:
    """entry: 'connector' (logical_connector on the filter as given) or 'yaml' (c7n_rewrite of a policy document)."""
    if leaf_text is not None:
        C7N_Rewriter.primitive = staticmethod(lambda resource, f: leaf_text[f["leaf"]])  # type: ignore[assignment]
    try:
        if entry == "connector":
            return C7N_Rewriter.logical_connector("ec2", filt)
        doc = yaml.safe_dump({"name": "p", "resource": "ec2", "filters": filt if isinstance(filt, list) else [filt]})
        return C7N_Rewriter.c7n_rewrite(doc)
    finally:
        C7N_Rewriter.primitive = _orig_primitive  # type: ignore[assignment]


def idf(x: Any) -> Any:
    return x


FUNCS = dict(c7nlib.FUNCTIONS, idf=idf)


def evaluate_text(text: str, binds: Dict[str, Any], functions: Any = None) -> Any:
    try:
        p = cel.program("I", text, functions=functions or FUNCS)
    except Exception as ex:
        return ("noparse", type(ex).__name__)
    try:
        v = p.evaluate(binds)
    except celpy.CELEvalError:
        return ("error",)
    except Exception as ex:
        return ("crash", type(ex).__name__)
    if isinstance(v, (ct.BoolType, bool)):
        return bool(v)
    return ("nonbool", repr(v)[:60])


def check_stub_tree(run: common.Run, t: Any, classes: List[str], entry: str, report) -> None:
    nl = len(classes)
    leaf_filters = [{"type": "value", "leaf": i} for i in range(nl)]
    leaf_text = {i: LEAF_CLASSES[classes[i]].format(i=i) for i in range(nl)}
    filt = to_filter(t, leaf_filters)
    case = {"tree": render_tree(t), "classes": classes, "entry": entry, "filter": filt}
    try:
        text = translate(filt, entry, leaf_text)
    except Exception as ex:
        report(f"translate-raises-{type(ex).__name__}[{sig(t, classes)}]", case, f"{type(ex).__name__}: {ex}")
        return
    case["cel"] = text
    if is_nontrivial(t, classes):
        run.nt((render_tree(t), tuple(classes), entry))
        run.event("nontrivial")
    run.event("entry:" + entry)
    for truth in itertools.product([False, True], repeat=nl):
        for rot in (0, 1):
            binds: Dict[str, Any] = {}
            for i, cls in enumerate(classes):
                rs = realisations(cls, truth[i])
                a = rs[(rot * 3 + i) % len(rs)]
                binds[f"p{i}"], binds[f"q{i}"], binds[f"r{i}"] = (ct.BoolType(x) for x in a)
            run.tick()
            want = combinator(t, list(truth))
            got = evaluate_text(text, binds)
            if got is not want:
                mode = "does-not-parse" if isinstance(got, tuple) and got[0] == "noparse" else "wrong-truth-value" if isinstance(got, bool) else got[0]
                report(f"structure-{mode}[{sig(t, classes)}]", dict(case, truth=list(truth), rot=rot), f"{render_tree(t)} classes {classes} -> {text!r}: expected {want} got {got} at {truth}")
                return
    run.sample({"filter": filt, "leaf_texts": leaf_text, "cel": text}, bucket=sig(t, classes)[:10])


def exhaustive_stub(run: common.Run, max_nodes: int, max_depth: int, report, shard: Optional[Tuple[int, int]] = None) -> int:
    n = 0
    idx = 0
    for nodes in range(1, max_nodes + 1):
        for shape in tree_shapes(nodes, max_depth):
            idx += 1
            if shard and idx % shard[1] != shard[0]:
                continue
            t = number_leaves(shape, [0])
            nl = sum(1 for _ in _leaves(t))
            for rotation in range(len(CLASS_ORDER) if nodes <= 4 else 2):
                classes = [CLASS_ORDER[(rotation + 2 * i) % len(CLASS_ORDER)] for i in range(nl)]
                entries = ["connector"] + (["yaml"] if (idx + rotation) % 2 == 0 or nodes <= 3 else [])
                for entry in entries:
                    check_stub_tree(run, t, classes, entry, report)
                    n += 1
    return n


def _leaves(t: Any):
    if t[0] == "leaf":
        yield t
    else:
        for c in t[1]:
            yield from _leaves(c)


# --- layer 0: what top-level classes do the real rewriters emit? ----------------------------------------------

REAL_CLAUSES = [
    ("value-eq", "ec2", {"type": "value", "key": "a", "op": "eq", "value": 1}),
    ("value-ni", "ec2", {"type": "value", "key": "a", "op": "ni", "value": [1]}),
    ("value-bool", "ec2", {"type": "value", "key": "a", "op": "eq", "value": "false"}),
    ("value-present", "ec2", {"type": "value", "key": "a", "value": "present"}),
    ("marked-for-op", "ec2", {"type": "marked-for-op", "op": "stop"}),
    ("image-age", "ec2", {"type": "image-age", "op": "ge", "days": 30}),
    ("event", "ec2", {"type": "event", "key": "detail.x", "op": "eq", "value": "y"}),
    ("metrics", "ec2", {"type": "metrics", "name": "CPU", "days": 4, "value": 30, "op": "lt"}),
    ("age", "ebs-snapshot", {"type": "age", "days": 7, "op": "gt"}),
    ("security-group", "ec2", {"type": "security-group", "key": "GroupName", "op": "eq", "value": "x"}),
    ("flow-logs", "vpc", {"type": "flow-logs", "enabled": True, "status": "active", "log-group": "g"}),
    ("flow-logs-1", "vpc", {"type": "flow-logs", "enabled": True}),
    ("tag-count", "ec2", {"type": "tag-count", "count": 8}),
    ("vpc", "ec2", {"type": "vpc", "key": "VpcId", "op": "eq", "value": "v"}),
    ("credential", "iam-user", {"type": "credential", "key": "password_enabled", "op": "eq", "value": "x"}),
    ("image", "ec2", {"type": "image", "key": "Name", "op": "regex", "value": "x"}),
    ("kms-alias", "ebs", {"type": "kms-alias", "key": "AliasName", "op": "regex", "value": "^x"}),
    ("kms-key", "sqs", {"type": "kms-key", "key": "c7n:AliasName", "op": "regex", "value": "^x"}),
    ("onhour", "ec2", {"type": "onhour", "default_tz": "UTC"}),
    ("offhour", "ec2", {"type": "offhour", "default_tz": "UTC", "opt-out": True}),
    ("offhour-skip", "ec2", {"type": "offhour", "default_tz": "UTC", "skip-days": ["2020-01-01"]}),
    ("cross-account", "sqs", {"type": "cross-account", "whitelist": ["1"]}),
    ("used", "ebs", {"type": "used"}),
    ("unused", "ebs", {"type": "unused"}),
    ("is-logging", "elb", {"type": "is-logging"}),
    ("is-not-logging", "elb", {"type": "is-not-logging"}),
    ("health-event", "ec2", {"type": "health-event"}),
    ("shield-enabled", "elb", {"type": "shield-enabled", "state": False}),
    ("waf-enabled", "app-elb", {"type": "waf-enabled", "state": False, "web-acl": "w"}),
    ("network-location", "ec2", {"type": "network-location", "compare": ["resource", "security-group"], "key": "tag:A", "ignore": [{"Description": "d"}]}),
]
STUB_CLASS_OF = {"bin:&&": "and", "bin:||": "or", "un:!": "not", "cond": "cond"}


def top_class(text: str) -> str:
    n = tree2ir.parse(text)
    if n is None:
        return "unparseable"
    while n[0] == "paren":
        n = n[1]
    if n[0] == "bin":
        return STUB_CLASS_OF.get(f"bin:{n[1]}", "rel")
    if n[0] == "un":
        return "not" if n[1] == "!" else "atom"
    if n[0] == "cond":
        return "cond"
    return "atom"


def survey_real_families(run: common.Run) -> Dict[str, str]:
    import contextlib
    import io

    seen: Dict[str, str] = {}
    for name, resource, clause in REAL_CLAUSES:
        try:
            with contextlib.redirect_stdout(io.StringIO()):
                text = C7N_Rewriter.primitive(resource, clause)
        except Exception as ex:
            raise common.HarnessError(f"real clause {name} cannot be translated: {type(ex).__name__}: {ex}")
        cls = top_class(text)
        seen[name] = cls
        if cls not in LEAF_CLASSES and cls != "unparseable":
            raise common.HarnessError(f"real family {name} emits top-level class {cls!r} that the stub set does not contain: {text}")
    return seen


# --- layer 2: real clauses with controllable truth -------------------------------------------------------------

NOW = ct.TimestampType("2021-06-15T19:30:00Z")  # a Tuesday, 19:30 UTC


def flow_logs_stub(resource: Any) -> Any:
    return resource.get(ct.StringType("_flow_logs"), ct.ListType())


REAL_FUNCS = dict(c7nlib.FUNCTIONS, flow_logs=flow_logs_stub)


def real_leaves() -> List[Tuple[str, str, Any, Any, Any]]:
    """(name, resource_type, clause, resource-fragment making it true, resource-fragment making it false)"""
    return [
        ("value-eq", "ec2", {"type": "value", "key": "A", "op": "eq", "value": 1}, {"A": 1}, {"A": 2}),
        ("value-ne", "ec2", {"type": "value", "key": "B", "op": "ne", "value": "x"}, {"B": "y"}, {"B": "x"}),
        ("value-false", "ec2", {"type": "value", "key": "C", "op": "eq", "value": "false"}, {"C": False}, {"C": True}),
        ("value-ni", "ec2", {"type": "value", "key": "D", "op": "ni", "value": ["u", "v"]}, {"D": "w"}, {"D": "u"}),
        ("tag-count", "ec2", {"type": "tag-count", "count": 2}, {"Tags": [{"Key": "a", "Value": "1"}, {"Key": "b", "Value": "2"}]}, {"Tags": [{"Key": "a", "Value": "1"}, {"Key": "aws:x", "Value": "2"}]}),
        ("marked-for-op", "ec2", {"type": "marked-for-op", "op": "stop"}, {"Tags": [{"Key": "custodian_status", "Value": "m:stop@2021/06/01"}]}, {"Tags": [{"Key": "custodian_status", "Value": "m:delete@2021/06/01"}]}),
        ("offhour-optout", "ec2", {"type": "offhour", "default_tz": "UTC", "opt-out": True, "offhour": 19}, {"Tags": [{"key": "other", "Key": "other", "Value": "v"}]}, {"Tags": [{"key": "maid_offhours", "Key": "maid_offhours", "Value": "v"}]}),
        ("flow-logs", "vpc", {"type": "flow-logs", "enabled": True, "status": "ACTIVE", "log-group": "g"}, {"_flow_logs": [{"FlowLogStatus": "ACTIVE", "LogGroupName": "z"}]}, {"_flow_logs": []}),
    ]


def check_real_tree(run: common.Run, t: Any, leaf_ids: List[int], entry: str, report) -> None:
    leaves = real_leaves()
    chosen = [leaves[i % len(leaves)] for i in leaf_ids]
    # two leaves of the same family would need the same attribute with two values: give every leaf its own family
    if len(set(c[0] for c in chosen)) != len(chosen):
        return
    tags_users = [c for c in chosen if "Tags" in c[3]]
    if len(tags_users) > 1:
        return  # these leaves all read resource.Tags: their truth values are not independently controllable
    filt = to_filter(t, [c[2] for c in chosen])
    case = {"real": True, "tree": render_tree(t), "leaves": [c[0] for c in chosen], "entry": entry, "filter": filt}
    import contextlib
    import io

    try:
        with contextlib.redirect_stdout(io.StringIO()):
            text = translate(filt, entry, None) if entry == "connector" else C7N_Rewriter.c7n_rewrite(yaml.safe_dump({"name": "p", "resource": chosen[0][1], "filters": filt if isinstance(filt, list) else [filt]}))
    except Exception as ex:
        report(f"real-translate-raises-{type(ex).__name__}", case, f"{type(ex).__name__}: {ex}")
        return
    case["cel"] = text
    classes = ["rel" if c[0].startswith("value") or c[0] == "tag-count" else "and" if c[0] in ("marked-for-op", "flow-logs") else "cond" for c in chosen]
    if is_nontrivial(t, classes):
        run.nt(("real", render_tree(t), tuple(c[0] for c in chosen), entry))
        run.event("nontrivial")
    run.event("real-tree")
    for truth in itertools.product([False, True], repeat=len(chosen)):
        resource: Dict[str, Any] = {}
        for c, tv in zip(chosen, truth):
            resource.update(c[3] if tv else c[4])
        binds = {"resource": json_to_cel(resource), "now": NOW}
        # the truth of each real leaf alone, as translated alone (ties the expectation to the rewriters' own output)
        alone = []
        for c in chosen:
            with contextlib.redirect_stdout(io.StringIO()):
                lt = C7N_Rewriter.primitive(c[1], c[2])
            alone.append(evaluate_text(lt, binds, REAL_FUNCS))
        if any(not isinstance(a, bool) for a in alone) or list(alone) != list(truth):
            raise common.HarnessError(f"real leaf truth not as designed: {[c[0] for c in chosen]} {truth} -> {alone}")
        run.tick()
        want = combinator(t, list(truth))
        got = evaluate_text(text, binds, REAL_FUNCS)
        if got is not want:
            mode = "does-not-parse" if isinstance(got, tuple) and got[0] == "noparse" else "wrong-truth-value" if isinstance(got, bool) else got[0]
            report(f"structure-{mode}[{sig(t, classes)}]", dict(case, truth=list(truth)), f"{render_tree(t)} {[c[0] for c in chosen]} -> {text!r}: expected {want} got {got} at {truth}")
            return
    run.sample({"filter": filt, "cel": text}, bucket="real")


def exhaustive_real(run: common.Run, max_nodes: int, report) -> int:
    n = 0
    nleaf = len(real_leaves())
    for nodes in range(1, max_nodes + 1):
        for si, shape in enumerate(tree_shapes(nodes, 3)):
            t = number_leaves(shape, [0])
            nl = sum(1 for _ in _leaves(t))
            for start in range(nleaf):
                ids = [(start + 3 * i) % nleaf for i in range(nl)]
                check_real_tree(run, t, ids, "connector" if (si + start) % 2 else "yaml", report)
                n += 1
    return n


@st.composite
def random_tree(draw, max_nodes: int = 14, max_depth: int = 4):
    """Larger trees than the exhaustive bound reaches (e.g. an `or` of two `and`s next to a sibling needs 9 nodes)."""
    def build(depth: int, budget: List[int], force: bool = False) -> Any:
        if depth >= max_depth or budget[0] <= 1 or (not force and draw(st.integers(0, 3)) == 0):
            budget[0] -= 1
            return ("leaf",)
        conn = draw(st.sampled_from(["and", "or", "or", "not", "list"]))
        k = draw(st.integers(1, 3))
        budget[0] -= 1
        kids = []
        for _ in range(k):
            if budget[0] <= 0:
                break
            # the operands of an `or` are connectives themselves half of the time (an or of ands next to a sibling is the classic regrouping case)
            kids.append(build(depth + 1, budget, force=(conn == "or" and draw(st.booleans()))))
        return (conn, kids or [("leaf",)])

    t = number_leaves(build(0, [draw(st.integers(3, max_nodes))]), [0])
    nl = sum(1 for _ in _leaves(t))
    classes = [draw(st.sampled_from(CLASS_ORDER + ["atom", "atom"])) for _ in range(nl)]
    return t, classes, draw(st.sampled_from(["connector", "yaml"]))


def _parse_tree(s: str) -> Any:
    """Inverse of render_tree."""
    pos = [0]

    def p() -> Any:
        if s[pos[0]] == "L":
            j = pos[0] + 1
            while j < len(s) and s[j].isdigit():
                j += 1
            v = ("leaf", int(s[pos[0] + 1 : j]))
            pos[0] = j
            return v
        j = s.index("[", pos[0])
        conn = s[pos[0] : j]
        pos[0] = j + 1
        kids = [p()]
        while s[pos[0]] == ",":
            pos[0] += 1
            kids.append(p())
        pos[0] += 1  # ]
        return (conn, kids)

    return p()


def replay(run: common.Run, case: dict, key: str = ""):
    problems = []
    rep = lambda k, c, d: problems.append((k, d))
    t = _parse_tree(case["tree"])
    if case.get("real"):
        names = [c[0] for c in real_leaves()]
        check_real_tree(run, t, [names.index(n) for n in case["leaves"]], case["entry"], rep)
    else:
        check_stub_tree(run, t, case["classes"], case["entry"], rep)
    return problems


def shard_campaign(run: common.Run) -> None:
    shard = (run.seed % 1000 - 1) % 16
    n = exhaustive_stub(run, 7, 4, run.fail, shard=(shard, 16))
    run.extra["exhaustive_stub_trees"] = n

    def body(c):
        t, classes, entry = c
        if len(classes) <= 8:
            check_stub_tree(run, t, classes, entry, run.hyp_fail)

    common.drive(run, body, {"c": random_tree(18, 5)}, 1500, seed_salt=1)


def main(run: common.Run) -> None:
    run.assumptions = [
        "Custodian combinators: list and `and` = all, `or` = any, `not` = not all (as in the statement)",
        "stub leaves stand for 'whatever CEL text the clauses translate to'; before the enumeration every real rewriter family is translated once and the run is a "
        "harness error if a family emits a top-level operator class the stub set lacks",
        "real leaves: one leaf per family per tree and at most one leaf reading resource.Tags, so that leaf truths are independently controllable; flow_logs() bound to a stub through functions=",
    ]
    seen = survey_real_families(run)
    run.extra["real_family_top_level_classes"] = seen
    for p in common.committed_replays(run.pid):
        doc = common.load_replay(p)
        for k, d in replay(run, doc["case"], doc.get("key", "")):
            run.fail(k, doc["case"], d)
        run.event("replayed")
    if run.tier == "quick":
        n = exhaustive_stub(run, 5, 4, run.fail)
        run.extra["exhaustive_stub_trees"] = n
        run.extra["exhaustive_bound"] = "<= 5 nodes, depth <= 4"
        run.extra["real_trees"] = exhaustive_real(run, 3, run.fail)

        def body(c):
            t, classes, entry = c
            if len(classes) <= 7:
                check_stub_tree(run, t, classes, entry, run.hyp_fail)

        common.drive(run, body, {"c": random_tree()}, 400, seed_salt=1)
    else:
        for s in common.run_sharded(run.pid, run.tier, run.seed, shard_campaign, 16, RULE):
            run.merge(s)
        run.extra["exhaustive_bound"] = "<= 7 nodes, depth <= 4 (sharded)"
        run.extra["real_trees"] = exhaustive_real(run, 4, run.fail)
