"""C20 — CLI output and exit status reflect the evaluation result.

celpy.__main__.main(argv) is called in-process with stdin/stdout/stderr replaced.
 -n : stdout == json.dumps(API value, cls=CELJSONEncoder), status 0; -b: 0 iff true, 1 iff false, 2 otherwise / on an evaluation error;
      syntax error: status 1 and a message carrying the parser's line:column.
 NDJSON (metamorphic): the output for a stream d1..dn is the concatenation of the outputs of the n one-document runs, the status is the
      maximum of their statuses, and a stream containing malformed JSON has status 3.
"""

from __future__ import annotations

import contextlib
import io
import json
import sys
from typing import Any, Dict, List, Optional, Tuple

from hypothesis import strategies as st

import celpy
import celpy.__main__ as cli
from celpy import celtypes as ct
from celpy.adapter import CELJSONEncoder

from vf import calendar, cel, common, gen, ir, outcome, values

RULE = (
    "expressions of the generator's bool/int/string/list fragment (incl. ones that error or do not parse) with --arg name:type=value bindings of every CLI type "
    "and generated values, with and without -b; NDJSON streams of 0-8 documents (objects, documents on which the expression errors, non-objects, malformed text, "
    "blank lines) with and without -b, -s, -p NAME / -d NAME. non-trivial = a stream with >= 2 documents of which at least one errors or is malformed, or a "
    "-b run whose value is not a boolean, or an --arg binding. distinct by (argv, stdin)."
)


def run_cli(argv: List[str], stdin_text: str = "") -> Tuple[Any, str, str]:
    out, err = io.StringIO(), io.StringIO()
    old_in = sys.stdin
    sys.stdin = io.StringIO(stdin_text)
    try:
        with contextlib.redirect_stdout(out), contextlib.redirect_stderr(err):
            try:
                status: Any = cli.main(argv)
            except SystemExit as ex:
                status = ("SystemExit", ex.code)
            except Exception as ex:  # an exception out of main() is a traceback and status 1 for the user
                status = ("exception", type(ex).__name__)
    finally:
        sys.stdin = old_in
        import logging

        logging.getLogger().setLevel(logging.WARNING)
    return status, out.getvalue(), err.getvalue()


_CLI_ZYGOTE = None


def run_cli_fresh(argv: List[str], stdin_text: str = "") -> Tuple[Any, str, str]:
    """The same run in a process of its own (forked from a process that imported the CLI and never ran it): what the run gives ALONE, whatever earlier
    runs may have left in this process."""
    global _CLI_ZYGOTE
    from vf import fresh

    if _CLI_ZYGOTE is None:
        fresh.warm_cache()
        _CLI_ZYGOTE = fresh.CliZygote()
    return _CLI_ZYGOTE.run(argv, stdin_text)


# --- --arg typed bindings: (cli type name, text, CEL kind, payload) --------------------------------------------


@st.composite
def arg_binding(draw, name: str):
    k = draw(st.sampled_from(["int", "uint", "double", "bool", "string", "bytes", "int64_value", "uint64_value", "double_value", "string_value", "bool_value",
                              "single_duration", "single_timestamp", "null_type", "plain"]))
    if k in ("int", "int64_value"):
        v = draw(gen.small_int())
        return name, k, str(v), "int", v
    if k in ("uint", "uint64_value"):
        v = draw(gen.small_uint())
        return name, k, str(v), "uint", v
    if k in ("double", "double_value"):
        v = draw(st.sampled_from([0.0, 1.5, -2.25, 1e10, 3.0, 0.1]))
        return name, k, repr(v), "double", v
    if k in ("bool", "bool_value"):
        v = draw(st.booleans())
        return name, k, draw(st.sampled_from(["true", "True", "t"] if v else ["false", "False", "f"])), "bool", v
    if k in ("string", "string_value", "plain"):
        v = draw(st.one_of(st.sampled_from(["", "abc", "a b", "é", "x=y", "1"]), st.text(alphabet="abcXY 0=:", max_size=6)))
        return name, k, v, "string", v
    if k == "bytes":
        v = draw(st.text(alphabet="abc", max_size=4))
        return name, k, v, "bytes", v.encode()
    if k == "single_duration":
        s = draw(st.integers(-1000, 100000))
        return name, k, f"{s}s", "duration", s * 10**6
    if k == "single_timestamp":
        us = draw(st.integers(0, 4102444800)) * 10**6
        return name, k, calendar.rfc3339(us), "timestamp", us
    return name, k, "ignored", "null", None


EXPRS_FOR_KIND = {
    "int": ["{n}", "{n} + 1", "{n} == 5", "{n} > 0 ? 'pos' : 'neg'", "[{n}, 2]", "{n} / 0", "{n} < 0"],
    "uint": ["{n}", "{n} + 1u", "{n} == 5u", "[{n}]", "{n} - 9u > 0u"],
    "double": ["{n}", "{n} * 2.0", "{n} > 1.0", "[{n}]"],
    "bool": ["{n}", "!{n}", "{n} || 1 / 0 == 1", "{n} ? 1 : 2", "[{n}]", "{n} && 'x'"],
    "string": ["{n}", "{n} + '!'", "size({n})", "{n}.contains('a')", "{n} == 'abc'", "[{n}, {n}]", "{n}.startsWith('a') ? {n} : 'zz'", "{n}.matches('(')"],
    "bytes": ["{n}", "size({n})", "{n} == b'abc'"],
    "duration": ["{n}", "{n} + duration('1s')", "{n} > duration('0s')"],
    "timestamp": ["{n}", "{n}.getFullYear()", "{n} > timestamp('2000-01-01T00:00:00Z')"],
    "null": ["{n}", "{n} == null", "[{n}]"],
}
NULL_INPUT_EXPRS = ["1 + 2", "'a' + 'b'", "[1, 2].map(x, x * 2)", "true", "false", "1 == 1", "1 / 0", "[1][5]", "1 +", "(1", "1 ) 2", "\n\n  foo bar", "true.x", "'abc'.size()",
                    "{'a': 1}", "{'a': [1, 2]}.a", "null", "1.5", "b'abc'", "duration('90s')", "timestamp('2009-02-13T23:31:30Z')", "2 > 1 ? 'y' : 'n'", "[]", "size([1,2]) == 2",
                    "undefined_name", "3u", "'é'", "[true, false].all(x, x)", "1 == 1 && 'a'", "!true", "1 in [1]"]


def syntax_error_locations(run: common.Run, report) -> None:
    """A complete expression followed by a second operand with no operator between them: the parser cannot accept the second operand's first token, whose
    line and column are known by construction (not taken from the library's own error object)."""
    firsts = ["1", "[1, 2]", "x", "'a'", "(1 + 2)", "f(1)", "true", "1 +\n 2", "[1,\n 2,\n 3]"]
    seconds = ["true", "false", "null", "3", "'b'", "y", "1.5", "2u", "b'x'", "true || y", "false ? 1 : 2"]  # (not [ or {: "x [4]" is an index, "x {..}" a message)
    gaps = [" ", "  ", "\n", "\n   ", " \t "]
    i = 0
    for a in firsts:
        for b in seconds:
            gap = gaps[i % len(gaps)]
            i += 1
            text = a + gap + b
            before = a + gap
            line = before.count("\n") + 1
            col = len(before) - (before.rfind("\n") + 1) + 1
            run.tick()
            run.nt(("syntax", text))
            run.event("syntax-error-location-case")
            status, out, err = run_cli(["-n", text])
            case = {"mode": "syntax", "text": text, "line": line, "column": col}
            if status != 1:
                report(f"syntax-error-status-{status}", case, f"{text!r}: status {status}, expected 1")
            elif f":{line}:{col}" not in err:
                report("syntax-error-message-does-not-locate-the-offending-token", case, f"{text!r}: stderr {err[:160]!r} lacks :{line}:{col}")


def api_outcome(expr: str, binds: Dict[str, Any]) -> Tuple:
    return cel.evaluate(expr, binds, "I", want_value=True)


def expected_b_status(o: Tuple, raw: Any) -> Optional[int]:
    if o[0] == "value":
        if o[2][0] == "bool":
            return 0 if o[2][1] else 1
        return 2
    if o[0] == "error":
        return 2
    return None


def check_null_input(run: common.Run, expr: str, args: List[Tuple], report) -> None:
    """-n runs, with and without -b."""
    argv_args: List[str] = []
    binds: Dict[str, Any] = {}
    for name, tname, text, kind, payload in args:
        argv_args += ["-a", f"{name}={text}" if tname == "plain" else f"{name}:{tname}={text}"]
        binds[name] = values.to_cel(kind, payload)
    o, raw = api_outcome(expr, binds)
    case = {"mode": "null-input", "expr": expr, "args": [list(a[:3]) for a in args]}
    for b in (False, True):
        run.tick()
        argv = ["-n"] + (["-b"] if b else []) + argv_args + [expr]
        status, out, err = run_cli(argv)
        c = dict(case, argv=argv)
        if args or (b and o[0] == "value" and o[2][0] != "bool") or o[0] != "value":
            run.nt((tuple(argv),))
            run.event("nontrivial")
        run.event("api-" + o[0])
        if o[0] == "parse_error":
            if status != 1:
                report(f"syntax-error-status-{status}", c, f"{argv}: status {status}, expected 1")
            elif f":{o[1]}:{o[2]}" not in err:
                report("syntax-error-message-lacks-position", c, f"{argv}: stderr {err[:200]!r} lacks :{o[1]}:{o[2]}")
            continue
        if b:
            want = expected_b_status(o, raw)
            if want is not None and status != want:
                kind = "error" if o[0] == "error" else o[2][0]
                report(f"boolean-status-for-{kind}-is-{status}-expected-{want}", c, f"{argv}: status {status}, expected {want} (value {outcome.short(o)[:80]})")
            continue
        if o[0] == "value":
            try:
                want_out = json.dumps(raw, cls=CELJSONEncoder) + "\n"
            except Exception:
                run.event("value-not-json-serialisable")
                continue
            if status != 0 or out != want_out:
                what = "status" if status != 0 else "output"
                report(f"null-input-{what}-differs-{o[2][0]}", c, f"{argv}: status {status} stdout {out[:120]!r}, expected 0 and {want_out[:120]!r}")
        else:
            run.event("error-without-b-not-asserted")
    run.sample({"argv": ["-n"] + argv_args + [expr], "api": outcome.short(o)[:60]}, bucket="n" + expr[:3])


# --- NDJSON ----------------------------------------------------------------------------------------------------


def doc_strategy():
    obj = st.fixed_dictionaries({}, optional={"name": st.one_of(st.sampled_from(["a", "b", ""]), st.integers(-3, 3), st.none(), st.booleans()),
                                              "n": st.one_of(st.integers(-2, 5), st.sampled_from(["x", 0, 1.5, 2.0, 1.0, 0.0, -0.0, 5.0, True])),
                                              "l": st.lists(st.one_of(st.integers(0, 3), st.sampled_from([1.0, 2.0, 0.0])), max_size=3),
                                              "m": st.fixed_dictionaries({}, optional={"k": st.integers(0, 2)})})
    good = obj.map(json.dumps)
    nonobj = st.sampled_from(["99999999999999999999", '{"n": -9223372036854775809}', '{"name": 1e400, "n": 1}', "9223372036854775807", "5", "5.0", "[1, 2]", "[1, 1.0, true]", "\"str\"", "null", "true", "1.5", "-0.0", "0"])
    bad = st.sampled_from(["{", "{'a': 1}", "nope", "", "  ", "{\"a\": }", "[1,", "{\"name\": 1} trailing",
                           # valid JSON wrapped in characters that JSON does not count as white space (only space, tab, CR, LF are)
                           "\x0c{\"name\": 1}", "{\"name\": 1}\u00a0", "\u2028{\"n\": 1}", "\x0b5", "{\"name\": \"a\"}\x1c", "\u3000[1, 2]", "{\"n\": 2}\ufeff"])
    return st.one_of(good, good, good, nonobj, bad)


STREAM_EXPRS = ["name", ".name", "n + 1", "n > 0", "l.map(x, x * 2)", "size(l)", "m.k", "has(m.k)", "n / 0", "name == 'a'", "[name, n]", "l[0]", "n > 0 ? name : 'neg'", "true", "1", "l.all(x, x > 0)"]
DOC_EXPRS = ["DOC.name", "DOC.n + 1", "DOC.l.map(x, x + 1)", "size(DOC)", "DOC", "has(DOC.name)", "DOC.n > 0", "DOC == 5", "DOC.m.k == 1"]


def check_stream(run: common.Run, expr: str, docs: List[str], b: bool, mode: str, report) -> None:
    """mode: 'package-default' | 'package:NAME' | 'document:NAME'"""
    flags: List[str] = ["-b"] if b else []
    if mode.startswith("package:"):
        flags += ["-p", mode.split(":", 1)[1]]
    elif mode.startswith("document:"):
        nm = mode.split(":", 1)[1]
        flags += ["-d", nm]
        expr = expr.replace("DOC", nm)
    argv = flags + [expr]
    stream = "".join(d + "\n" for d in docs)
    run.tick()
    status, out, err = run_cli(argv, stream)
    singles = [run_cli_fresh(argv, d + "\n") for d in docs]  # each document alone, in a process of its own
    fresh_stream = run_cli_fresh(argv, stream)
    if (status, out) != fresh_stream[:2]:
        report("stream-result-depends-on-earlier-runs-in-the-process", {"mode": "stream", "argv": argv, "docs": docs}, f"{argv}: in this process {(status, out[:120])}, in a fresh process {(fresh_stream[0], fresh_stream[1][:120])}")
    run.tick(len(docs))
    case = {"mode": "stream", "argv": argv, "docs": docs}
    bad = [i for i, d in enumerate(docs) if _malformed(d)]
    errs = [i for i, (s, o, e) in enumerate(singles) if o == "null\n"]
    if len(docs) >= 2 and (bad or errs):
        run.nt((tuple(argv), tuple(docs)))
        run.event("nontrivial")
    run.event(f"docs:{min(len(docs), 4)}")
    if any(not isinstance(s, int) for s, _, _ in singles) or not isinstance(status, int):
        weird = [s for s, _, _ in singles if not isinstance(s, int)] + ([status] if not isinstance(status, int) else [])
        report(f"stream-main-raises-{weird[0][1] if isinstance(weird[0], tuple) else weird[0]}", case, f"{argv} on {docs}: {weird[:2]}")
        return
    want_out = "".join(o for _, o, _ in singles)
    want_status = max([s for s, _, _ in singles], default=0)
    if out != want_out:
        k = next((i for i, (a, b_) in enumerate(zip(out.splitlines(), want_out.splitlines())) if a != b_), min(len(out.splitlines()), len(want_out.splitlines())))
        report("stream-output-line-depends-on-other-documents", dict(case, line=k), f"{argv}: stream output {out[:160]!r} != concatenation of single runs {want_out[:160]!r}")
    if status != want_status:
        report(f"stream-status-{status}-expected-worst-{want_status}", case, f"{argv}: status {status}, single-document statuses {[s for s, _, _ in singles]}")
    if bad and status != 3:
        report(f"stream-malformed-json-status-{status}", case, f"{argv}: malformed document(s) at {bad} but status {status}")
    run.sample({"argv": argv, "stdin": docs, "stdout": out[:120], "status": status}, bucket="stream" + mode[:4])


def _malformed(d: str) -> bool:
    try:
        json.loads(d)
        return False
    except Exception:
        return True


def check_slurp(run: common.Run, expr: str, doc: Any, b: bool, report) -> None:
    """-s: the whole of stdin (pretty-printed over several lines) is one document: same as the one-line run."""
    run.tick()
    pretty = json.dumps(doc, indent=2)
    s1 = run_cli(["-s"] + (["-b"] if b else []) + [expr], pretty)
    s2 = run_cli((["-b"] if b else []) + [expr], json.dumps(doc) + "\n")
    run.nt(("slurp", expr, pretty, b))
    if s1[:2] != s2[:2]:
        report("slurp-differs-from-single-line", {"mode": "slurp", "expr": expr, "doc": doc, "b": b}, f"-s {expr!r}: {s1[:2]} vs one-line {s2[:2]}")


def replay(run: common.Run, case: dict, key: str = ""):
    problems = []
    rep = lambda k, c, d: problems.append((k, d))
    if case["mode"] == "syntax":
        syntax_error_locations(run, rep)
    elif case["mode"] == "null-input":
        args = []
        for name, tname, text in case["args"]:
            kind = {"int": "int", "int64_value": "int", "uint": "uint", "uint64_value": "uint", "double": "double", "double_value": "double", "bool": "bool", "bool_value": "bool",
                    "string": "string", "string_value": "string", "plain": "string", "bytes": "bytes", "single_duration": "duration", "single_timestamp": "timestamp", "null_type": "null"}[tname]
            payload: Any = {"int": lambda t: int(t), "uint": lambda t: int(t), "double": float, "bool": lambda t: t in ("true", "True", "t"), "string": str, "bytes": lambda t: t.encode(),
                            "duration": lambda t: int(t[:-1]) * 10**6, "timestamp": lambda t: outcome.ts_micros(ct.TimestampType(t)), "null": lambda t: None}[kind](text)
            args.append((name, tname, text, kind, payload))
        check_null_input(run, case["expr"], args, rep)
    elif case["mode"] == "stream":
        argv = case["argv"]
        b = "-b" in argv
        mode = "package-default"
        if "-p" in argv:
            mode = "package:" + argv[argv.index("-p") + 1]
        if "-d" in argv:
            mode = "document:" + argv[argv.index("-d") + 1]
        check_stream(run, argv[-1], case["docs"], b, mode, rep)
    else:
        check_slurp(run, case["expr"], case["doc"], case["b"], rep)
    return problems


def campaign(run: common.Run) -> None:
    q = run.tier == "quick"

    @st.composite
    def null_case(draw):
        if draw(st.integers(0, 3)) == 0:
            return draw(st.sampled_from(NULL_INPUT_EXPRS)), []
        a = draw(arg_binding("x"))
        expr = draw(st.sampled_from(EXPRS_FOR_KIND[a[3]])).format(n="x")
        extra = []
        if draw(st.booleans()):
            a2 = draw(arg_binding("y"))
            extra = [a2]
            if a2[3] == a[3] and a[3] in ("int", "string", "uint", "double"):
                expr = f"[{expr}, x == y]" if draw(st.booleans()) else expr
        return expr, [a] + extra

    def body_null(c):
        check_null_input(run, c[0], c[1], run.hyp_fail)

    def body_stream(expr, docs, b, mode):
        check_stream(run, expr, docs, b, mode, run.hyp_fail)

    def body_doc(expr, docs, b, name):
        check_stream(run, expr, docs, b, "document:" + name, run.hyp_fail)

    def body_slurp(expr, doc, b):
        check_slurp(run, expr, doc, b, run.hyp_fail)

    docs = st.lists(doc_strategy(), max_size=8 if not q else 5)
    common.drive(run, body_null, {"c": null_case()}, 500 if q else 3000, seed_salt=1)
    common.drive(run, body_stream, {"expr": st.sampled_from(STREAM_EXPRS), "docs": docs, "b": st.booleans(), "mode": st.sampled_from(["package-default", "package-default", "package:jq", "package:pk"])},
                 180 if q else 1500, seed_salt=2)
    common.drive(run, body_doc, {"expr": st.sampled_from(DOC_EXPRS), "docs": docs, "b": st.booleans(), "name": st.sampled_from(["doc", "jq", "r"])}, 90 if q else 800, seed_salt=3)
    objs = st.dictionaries(st.sampled_from(["name", "n", "l"]), st.one_of(st.integers(0, 3), st.lists(st.integers(0, 2), max_size=2), st.sampled_from(["a", "b"])), max_size=3)
    common.drive(run, body_slurp, {"expr": st.sampled_from(STREAM_EXPRS), "doc": objs, "b": st.booleans()}, 100 if q else 500, seed_salt=4)


def subprocess_sample(run: common.Run, report) -> None:
    """thorough: a sample through real `python -m celpy` processes (exit status as the OS sees it)."""
    import os
    import subprocess

    env = dict(os.environ)
    for argv, stdin, want_status, want_out in [
        (["-n", "1 + 2"], "", 0, "3\n"), (["-n", "-b", "1 == 1"], "", 0, None), (["-n", "-b", "1 == 2"], "", 1, None), (["-n", "-b", "1 + 2"], "", 2, None),
        (["-n", "-b", "1 / 0 == 1"], "", 2, None), (["-n", "1 +"], "", 1, None), (["name"], '{"name": "a"}\n{"name": 2}\n', 0, '"a"\n2\n'), (["name"], '{"name": "a"}\nnope\n', 3, '"a"\n'),
        (["-b", "n > 0"], '{"n": 1}\n{"n": -1}\n', 1, None),
    ]:
        run.tick()
        p = subprocess.run([sys.executable, "-m", "celpy"] + argv, input=stdin, capture_output=True, text=True, env=env, timeout=120)
        run.nt(("subprocess", tuple(argv), stdin))
        if p.returncode != want_status or (want_out is not None and p.stdout != want_out):
            report(f"subprocess-status-{p.returncode}-expected-{want_status}", {"mode": "subprocess", "argv": argv, "stdin": stdin}, f"{argv}: rc {p.returncode} out {p.stdout[:100]!r}")


def main(run: common.Run) -> None:
    run.assumptions = [
        "main(argv) is called in-process (SystemExit / exceptions out of main are recorded as such); the thorough tier adds real subprocesses for a fixed sample",
        "without -b an evaluation error's status is not asserted (the statement gives 2 only under -b); with -b only the status is asserted",
        "NDJSON is judged metamorphically (stream vs its one-document runs, each of those in a process of its own forked from a process that imported the CLI and never ran it; the stream "
        "itself both in the check's process and in such a fresh one), so nothing beyond the statement is assumed about per-document status codes",
        "expressions do not start with '-' (argparse would read them as options)",
    ]
    for p in common.committed_replays(run.pid):
        doc = common.load_replay(p)
        for k, d in replay(run, doc["case"], doc.get("key", "")):
            run.fail(k, doc["case"], d)
        run.event("replayed")
    for e in NULL_INPUT_EXPRS:
        check_null_input(run, e, [], run.fail)
    syntax_error_locations(run, run.fail)
    try:
        if run.tier == "quick":
            campaign(run)
        else:
            subprocess_sample(run, run.fail)
            for s in common.run_sharded(run.pid, run.tier, run.seed, _shard, 16, RULE):
                run.merge(s)
    finally:
        if _CLI_ZYGOTE is not None:
            _CLI_ZYGOTE.close()


def _shard(run: common.Run) -> None:
    global _CLI_ZYGOTE
    _CLI_ZYGOTE = None  # each shard has its own zygote
    try:
        campaign(run)
    finally:
        if _CLI_ZYGOTE is not None:
            _CLI_ZYGOTE.close()
