"""C15 — JSON documents convert to CEL values and back without loss.

Generated JSON documents: (a) kind map by exact class, (b) encoder round trip under a type-strict comparison,
(c) CEL navigation along every path equals json_to_cel of the sub-document, (d) timestamp/duration/bytes encodings.
"""

from __future__ import annotations

import json
import re
from typing import Any, List, Tuple

from hypothesis import strategies as st

import celpy
from celpy import celtypes as ct
from celpy.adapter import CELJSONDecoder, CELJSONEncoder, json_to_cel

from vf import calendar, cel, common, literals, outcome, values

RULE = (
    "recursive JSON documents (depth <= 5, <= 40 nodes): null, booleans, int64 incl. boundaries, finite floats incl. -0.0, 1e308, 5e-324 and "
    "integral floats, arbitrary Unicode strings and keys, arrays, objects; every valid path (capped per document in quick tier) spelled with "
    ".field (identifier keys), [\"key\"] and [i]; plus CEL values holding whole-second timestamps (any offset), durations and bytes. "
    "non-trivial = depth >= 2, or contains a boolean next to an integer, an int64 boundary, -0.0, a non-ASCII key, or an empty container. "
    "distinct by document text (+ path)."
)

IDENT = re.compile(r"[_a-zA-Z][_a-zA-Z0-9]*\Z")  # \Z, not $: "A\n" is not an identifier
NOT_FIELD = {"true", "false", "null", "in", "as", "break", "const", "continue", "else", "for", "function", "if", "import", "let", "loop",
             "package", "namespace", "return", "var", "void", "while"}


def json_scalars():
    return st.one_of(
        st.none(), st.booleans(), values.int64(), st.integers(-5, 5),
        values.finite_double(), st.sampled_from([-0.0, 0.0, 3.0, 1e308, 5e-324, 1.5, -2.0, 1e16, 1e-7]),
        values.text(6), values.small_text(),
    )


def json_keys():
    return st.one_of(st.sampled_from(["a", "b", "key", "f_1", "_x", "in", "true", "null", "a b", "", "é", "\U0001f431", "a.b", "0", "x\"y", "for"]),
                     values.text(5), values.small_text())


def json_docs():
    return st.recursive(
        json_scalars(),
        lambda ch: st.one_of(st.lists(ch, max_size=4), st.dictionaries(json_keys(), ch, max_size=4)),
        max_leaves=20,
    )


def depth(d: Any) -> int:
    if isinstance(d, list):
        return 1 + max([depth(i) for i in d], default=0)
    if isinstance(d, dict):
        return 1 + max([depth(i) for i in d.values()], default=0)
    return 0


def size(d: Any) -> int:
    if isinstance(d, list):
        return 1 + sum(size(i) for i in d)
    if isinstance(d, dict):
        return 1 + sum(size(i) for i in d.values())
    return 1


def strict_eq(a: Any, b: Any) -> bool:
    """Type-strict JSON equality: True != 1, 3 != 3.0, -0.0 != 0.0."""
    if type(a) is not type(b):
        return False
    if isinstance(a, float):
        return outcome.dbl(a) == outcome.dbl(b)
    if isinstance(a, list):
        return len(a) == len(b) and all(strict_eq(x, y) for x, y in zip(a, b))
    if isinstance(a, dict):
        return a.keys() == b.keys() and all(strict_eq(a[k], b[k]) for k in a)
    return a == b


EXPECTED_CLASS = {bool: "BoolType", int: "IntType", float: "DoubleType", str: "StringType", type(None): "NoneType", list: "ListType", dict: "MapType"}


def class_mismatch(doc: Any, cel_v: Any, path: str = "$") -> List[str]:
    out = []
    want = EXPECTED_CLASS[type(doc)]
    got = type(cel_v).__name__
    if want != got:
        out.append(f"{path}: {type(doc).__name__} became {got}, expected {want}")
        return out
    if isinstance(doc, list):
        if len(doc) != len(cel_v):
            out.append(f"{path}: length {len(doc)} -> {len(cel_v)}")
        for i, (d, c) in enumerate(zip(doc, cel_v)):
            out += class_mismatch(d, c, f"{path}[{i}]")
    elif isinstance(doc, dict):
        if len(doc) != len(cel_v):
            out.append(f"{path}: {len(doc)} keys -> {len(cel_v)}")
        for k, c in cel_v.items():
            if type(k).__name__ != "StringType":
                out.append(f"{path}: key {k!r} is {type(k).__name__}")
            if str(k) not in doc:
                out.append(f"{path}: invented key {k!r}")
            else:
                out += class_mismatch(doc[str(k)], c, f"{path}.{k}")
    else:
        if not strict_eq(_plain(cel_v), doc):
            out.append(f"{path}: value {doc!r} became {cel_v!r}")
    return out


def _plain(v: Any) -> Any:
    if v is None:
        return None
    k = outcome.kind_of(v)
    return {"bool": bool, "int": int, "double": float, "string": str}.get(k, lambda x: x)(v)


def all_paths(d: Any, prefix: Tuple = ()) -> List[Tuple]:
    out = [prefix] if prefix else []
    if isinstance(d, list):
        for i, x in enumerate(d):
            out += all_paths(x, prefix + (i,))
    elif isinstance(d, dict):
        for k, x in d.items():
            out += all_paths(x, prefix + (k,))
    return out


def follow(d: Any, path: Tuple) -> Any:
    for p in path:
        d = d[p]
    return d


def is_nontrivial(d: Any) -> bool:
    text = json.dumps(d)
    flat = list(_leaves(d))
    return (
        depth(d) >= 2
        or (any(isinstance(x, bool) for x in flat) and any(type(x) is int for x in flat))
        or any(type(x) is int and x in (values.I_MIN, values.I_MAX) for x in flat)
        or any(isinstance(x, float) and outcome.dbl(x) == outcome.dbl(-0.0) for x in flat)
        or any(ord(c) > 127 for c in text if True) or "\\u" in text
        or d in ([], {})
        or "[]" in text or "{}" in text
    )


def _leaves(d):
    if isinstance(d, list):
        for x in d:
            yield from _leaves(x)
    elif isinstance(d, dict):
        for x in d.values():
            yield from _leaves(x)
    else:
        yield d


def check_doc(run: common.Run, d: Any, path_choices: List[int], styles: List[int], report) -> None:
    run.tick()
    case = {"doc": d}
    if is_nontrivial(d):
        run.nt(json.dumps(d, sort_keys=True))
        run.event("nontrivial")
    run.event(f"depth:{min(depth(d), 5)}")
    try:
        c = json_to_cel(d)
    except Exception as ex:
        report("json_to_cel-raises", case, f"{type(ex).__name__}: {ex}")
        return
    # (a) kind map
    mm = class_mismatch(d, c)
    if mm:
        report("kind-map-" + ("bool" if any("bool became" in m for m in mm) else "other"), case, "; ".join(mm[:3]))
    # (b) encoder round trip, both through json.dumps(cls=) and through the decoder
    try:
        text = json.dumps(c, cls=CELJSONEncoder)
        back = json.loads(text)
        if not strict_eq(back, d):
            report("encoder-roundtrip-differs", case, f"{text[:200]}")
        # the other ways the json module drives "the library's encoder": json.dump() to a file and iterencode() (they do not call encode())
        import io

        buf = io.StringIO()
        json.dump(c, buf, cls=CELJSONEncoder)
        for how, t2 in (("json.dump", buf.getvalue()), ("iterencode", "".join(CELJSONEncoder().iterencode(c))), ("encode", CELJSONEncoder().encode(c))):
            if not strict_eq(json.loads(t2), d):
                report(f"encoder-roundtrip-differs-via-{how}", case, f"{t2[:200]}")
        c2 = json.loads(json.dumps(d), cls=CELJSONDecoder)
        if outcome.value_outcome(c2) != outcome.value_outcome(c):
            report("decoder-differs-from-json_to_cel", case, f"{c2!r:.200}")
    except common.Found:
        raise
    except Exception as ex:
        report("encoder-raises", case, f"{type(ex).__name__}: {ex}")
    # (c) navigation
    paths = all_paths(d)
    if paths:
        picks = paths if run.tier == "thorough" and len(paths) <= 40 else [paths[i % len(paths)] for i in path_choices]
        for n, path in enumerate(picks):
            src = "doc"
            for j, p in enumerate(path):
                if isinstance(p, int):
                    src += f"[{p}]"
                elif IDENT.match(p) and p not in NOT_FIELD and styles[(n + j) % len(styles)] == 0:
                    src += f".{p}"
                else:
                    src += f"[{literals.conservative_string(p)}]"
            want = outcome.value_outcome(json_to_cel(follow(d, path)))
            for r in ("I", "C"):
                got = cel.evaluate(src, {"doc": c}, r)
                run.tick()
                if got != want:
                    report(f"navigation-{r}-" + ("error" if got[0] != "value" else "wrong-element"), dict(case, path=list(path), src=src, route=r),
                           f"{src}: expected {outcome.short(want)[:150]} got {outcome.short(got)[:150]}")
            if len(path) >= 2:
                run.nt((json.dumps(d, sort_keys=True), src))
    run.sample({"doc": json.dumps(d)[:160], "paths": len(paths)}, bucket=f"d{min(depth(d), 3)}")


# (d) non-JSON CEL scalars --------------------------------------------------------------------------

B64 = "ABCDEFGHIJKLMNOPQRSTUVWXYZabcdefghijklmnopqrstuvwxyz0123456789+/"


def base64_ref(b: bytes) -> str:
    out = []
    for i in range(0, len(b), 3):
        chunk = b[i : i + 3]
        n = int.from_bytes(chunk + b"\0" * (3 - len(chunk)), "big")
        s = [B64[(n >> 18) & 63], B64[(n >> 12) & 63], B64[(n >> 6) & 63], B64[n & 63]]
        if len(chunk) < 3:
            s[3] = "="
        if len(chunk) < 2:
            s[2] = "="
        out.append("".join(s))
    return "".join(out)


def check_scalar_encoding(run: common.Run, ts_us: int, off: int, dur_us: int, b: bytes, report) -> None:
    run.tick()
    local = ts_us + off * 60 * 10**6
    if not (values.TS_MIN <= local <= values.TS_MAX):
        off = 0
    doc = ct.MapType({ct.StringType("t"): ct.TimestampType(values.us_to_datetime(ts_us, off)),
                      ct.StringType("d"): ct.DurationType(__import__("datetime").timedelta(microseconds=dur_us)),
                      ct.StringType("b"): ct.BytesType(b),
                      ct.StringType("l"): ct.ListType([ct.BytesType(b), ct.BoolType(True), ct.IntType(1)])})
    case = {"ts_us": ts_us, "offset_min": off, "dur_us": dur_us, "bytes": b}
    try:
        got = json.loads(json.dumps(doc, cls=CELJSONEncoder))
    except Exception as ex:
        report("scalar-encoding-raises", case, f"{type(ex).__name__}: {ex}")
        return
    want = {"t": calendar.rfc3339(ts_us, off), "d": f"{dur_us // 10**6 if dur_us >= 0 else -((-dur_us) // 10**6)}s", "b": base64_ref(b),
            "l": [base64_ref(b), True, 1]}
    for k in want:
        if not strict_eq(got.get(k), want[k]):
            report(f"scalar-encoding-{ {'t': 'timestamp', 'd': 'duration', 'b': 'bytes', 'l': 'nested'}[k] }", case, f"{k}: expected {want[k]!r} got {got.get(k)!r}")
    run.nt(("enc", ts_us, off, dur_us, b.hex()))
    run.sample({"encoded": got}, bucket="scalar-enc")


def replay(run: common.Run, case: dict, key: str = ""):
    problems = []
    rep = lambda k, c, d: problems.append((k, d))
    if "doc" in case:
        d = case["doc"]
        paths = all_paths(d)
        idx = [paths.index(tuple(case["path"]))] if case.get("path") is not None and tuple(case["path"]) in paths else list(range(min(len(paths), 40)))
        for st_ in ([0], [1]):
            check_doc(run, d, idx, st_, rep)
    else:
        check_scalar_encoding(run, case["ts_us"], case["offset_min"], case["dur_us"], case["bytes"], rep)
    return problems


def campaign(run: common.Run) -> None:
    q = run.tier == "quick"

    def body(d, picks, styles):
        check_doc(run, d, picks, styles, run.hyp_fail)

    def body_enc(t, off, d, b):
        check_scalar_encoding(run, t, off, d, b, run.hyp_fail)

    common.drive(run, body, {"d": json_docs(), "picks": st.lists(st.integers(0, 1000), min_size=3, max_size=6),
                              "styles": st.lists(st.integers(0, 1), min_size=1, max_size=4)}, 2500 if q else 12000, seed_salt=1)
    offs = st.one_of(st.just(0), st.integers(-840, 840), st.sampled_from([330, -300, 60]))
    common.drive(run, body_enc, {"t": values.timestamp_us(whole_seconds=True), "off": offs, "d": values.duration_us(whole_seconds=True),
                                  "b": values.binary(9) | st.binary(min_size=40, max_size=200) | st.sampled_from([56, 57, 58, 59, 76, 114, 115, 255, 256, 1000]).flatmap(lambda n: st.binary(min_size=n, max_size=n))},
                 400 if q else 6000, seed_salt=2)


def main(run: common.Run) -> None:
    run.assumptions = [
        "JSON integers are within int64 (statement's domain); floats are finite",
        "timestamps/durations in (d) are whole seconds (the encoder's text form has no fraction; losslessness of sub-second parts is not claimed)",
        ".field syntax only for keys that are identifiers and not CEL keywords/reserved words",
    ]
    for p in common.committed_replays(run.pid):
        doc = common.load_replay(p)
        for k, d in replay(run, doc["case"], doc.get("key", "")):
            run.fail(k, doc["case"], d)
        run.event("replayed")
    if run.tier == "quick":
        campaign(run)
    else:
        for s in common.run_sharded(run.pid, run.tier, run.seed, campaign, 16, RULE):
            run.merge(s)
