"""C17 — Custodian helper functions implement their set, CIDR, tag and ARN semantics.

Each helper is called directly and through CEL (function and method syntax, functions=celpy.c7nlib.FUNCTIONS) on generated inputs and
compared with an independent model (Python sets, 32-bit integer arithmetic, an own glob matcher, integer tuples, positional splits).
The filter context is checked over generated sequences of succeeding / failing evaluations.
"""

from __future__ import annotations

from typing import Any, Dict, List, Optional, Tuple

from hypothesis import strategies as st

import celpy
import celpy.c7nlib as c7n
from celpy import celtypes as ct
from celpy.evaluation import CELEvalError

from vf import calendar, cel, common, outcome, values

RULE = (
    "pairs of lists of strings/ints over a small alphabet (empty, duplicates, disjoint, overlapping); strings x glob patterns built from literals, *, ?, [set], "
    "[!set], ranges; all IPv4 addresses/networks of every prefix length (host bits cleared; a separate host-bits-set class asserts only 'no foreign exception'); "
    "dotted numeric versions; tag lists with repeated keys; message:action@date values whose message contains ':' and '@'; the three ARN shapes; each helper "
    "directly and through CEL (function + method syntax); sequences of successful / CEL-failing / host-raising evaluations for the filter context. "
    "non-trivial = lists share some but not all elements, wildcard pattern vs near-matching text, nested/adjacent/equal networks, versions differing in a "
    "component >= 10, a failing evaluation followed by another. distinct by (helper, inputs)."
)


def cel_list(xs: List[Any]) -> Any:
    return ct.ListType([ct.StringType(x) if isinstance(x, str) else ct.IntType(x) for x in xs])


def via_cel(src: str, binds: Dict[str, Any]) -> Tuple:
    o = cel.evaluate(src, binds, "I", functions=c7n.FUNCTIONS)
    return o


def direct(fn, *args) -> Tuple:
    try:
        return ("value", None, outcome.canon(fn(*args)))
    except (ValueError, TypeError, KeyError, AttributeError) as ex:
        return ("error",)
    except Exception as ex:
        return ("crash", type(ex).__name__, "direct")


def agree(run: common.Run, helper: str, want: Any, observations: List[Tuple[str, Tuple]], case: dict, report) -> None:
    for route, o in observations:
        got = o[2] if o[0] == "value" else o
        if got != want:
            mode = "error" if o[0] == "error" else "crash" if o[0] == "crash" else "wrong"
            report(f"{helper}-{route}-{mode}", dict(case, route=route), f"{helper}: expected {want} got {str(got)[:140]}")


# --- sets ------------------------------------------------------------------------------------------------


def check_sets(run: common.Run, a: List[Any], b: List[Any], report) -> None:
    run.tick()
    A, B = set(a), set(b)
    if A & B and A - B:
        run.nt(("sets", tuple(a), tuple(b)))
        run.event("nontrivial")
    la, lb = cel_list(a), cel_list(b)
    case = {"helper": "sets", "a": a, "b": b}
    binds = {"a": la, "b": lb}
    agree(run, "intersect", ("bool", bool(A & B)), [("direct", direct(c7n.intersect, la, lb)), ("cel-fn", via_cel("intersect(a, b)", binds)), ("cel-method", via_cel("a.intersect(b)", binds))], case, report)
    agree(run, "difference", ("bool", bool(A - B)), [("direct", direct(c7n.difference, la, lb)), ("cel-fn", via_cel("difference(a, b)", binds)), ("cel-method", via_cel("a.difference(b)", binds))], case, report)
    agree(run, "unique_size", ("int", len(A)), [("direct", direct(c7n.unique_size, la)), ("cel-fn", via_cel("unique_size(a)", binds)), ("cel-method", via_cel("a.unique_size()", binds))], case, report)
    run.sample({"a": a, "b": b, "intersect": bool(A & B), "difference": bool(A - B)}, bucket="sets")


def check_normalize(run: common.Run, s: str, report) -> None:
    run.tick()
    want = ("string", s.strip().lower())
    if s != s.strip() or s != s.lower():
        run.nt(("norm", s))
    x = ct.StringType(s)
    agree(run, "normalize", want, [("direct", direct(c7n.normalize, x)), ("cel-fn", via_cel("normalize(s)", {"s": x})), ("cel-method", via_cel("s.normalize()", {"s": x}))], {"helper": "normalize", "s": s}, report)


# --- glob ------------------------------------------------------------------------------------------------


def glob_match(pat: List[Tuple], text: str) -> bool:
    """Independent matcher over a structured pattern: [('lit', c) | ('any',) | ('star',) | ('set', neg, chars)]."""
    def m(i: int, j: int) -> bool:
        if i == len(pat):
            return j == len(text)
        p = pat[i]
        if p[0] == "star":
            return any(m(i + 1, k) for k in range(j, len(text) + 1))
        if j >= len(text):
            return False
        c = text[j]
        if p[0] == "lit":
            return c == p[1] and m(i + 1, j + 1)
        if p[0] == "any":
            return m(i + 1, j + 1)
        hit = c in p[2]
        return (hit != p[1]) and m(i + 1, j + 1)

    return m(0, 0)


def glob_text(pat: List[Tuple]) -> str:
    out = []
    for p in pat:
        if p[0] == "lit":
            out.append("[" + p[1] + "]" if p[1] in "*?[" else p[1])
        elif p[0] == "any":
            out.append("?")
        elif p[0] == "star":
            out.append("*")
        else:
            chars = "".join(sorted(p[2]))
            out.append("[" + ("!" if p[1] else "") + chars + "]")
    return "".join(out)


@st.composite
def glob_case(draw):
    alpha = "abc"
    pat = draw(st.lists(st.one_of(
        st.tuples(st.just("lit"), st.sampled_from(alpha + "*?.")), st.just(("any",)), st.just(("star",)),
        st.tuples(st.just("set"), st.booleans(), st.sets(st.sampled_from(alpha), min_size=1, max_size=2).map(frozenset))), max_size=5))
    # a text that nearly matches: instantiate the pattern, then maybe perturb
    text = []
    for p in pat:
        if p[0] == "lit":
            text.append(p[1])
        elif p[0] == "any":
            text.append(draw(st.sampled_from(alpha)))
        elif p[0] == "star":
            text.append(draw(st.text(alphabet=alpha, max_size=2)))
        else:
            pool = [c for c in alpha if (c in p[2]) != p[1]] or ["z"]
            text.append(draw(st.sampled_from(pool)))
    t = "".join(text)
    k = draw(st.integers(0, 3))
    if k == 1 and t:
        i = draw(st.integers(0, len(t) - 1))
        t = t[:i] + draw(st.sampled_from(alpha + "A")) + t[i + 1:]
    elif k == 2:
        t = t + draw(st.sampled_from(alpha))
    elif k == 3 and t:
        t = t[:-1]
    return [tuple(p) for p in pat], t


def check_glob(run: common.Run, pat: List[Tuple], text: str, report) -> None:
    run.tick()
    ptxt = glob_text(pat)
    want = ("bool", glob_match(pat, text))
    if any(p[0] != "lit" for p in pat):
        run.nt(("glob", ptxt, text))
        run.event("nontrivial")
    run.event("glob-match" if want[1] else "glob-nomatch")
    t, p = ct.StringType(text), ct.StringType(ptxt)
    agree(run, "glob", want, [("direct", direct(c7n.glob, t, p)), ("cel-fn", via_cel("glob(t, p)", {"t": t, "p": p})), ("cel-method", via_cel("t.glob(p)", {"t": t, "p": p}))],
          {"helper": "glob", "pattern": [list(x) if x[0] != "set" else ["set", x[1], sorted(x[2])] for x in pat], "text": text}, report)
    run.sample({"pattern": ptxt, "text": text, "matches": want[1]}, bucket="glob")


# --- CIDR ------------------------------------------------------------------------------------------------


def ip_text(v: int) -> str:
    return ".".join(str((v >> s) & 255) for s in (24, 16, 8, 0))


@st.composite
def cidr_case(draw):
    pn = draw(st.integers(0, 32))
    addr = draw(st.one_of(st.integers(0, 2**32 - 1), st.sampled_from([0, 2**32 - 1, 10 << 24, (192 << 24) | (168 << 16), 2**31])))
    net = addr & ~((1 << (32 - pn)) - 1) & 0xFFFFFFFF
    kind = draw(st.sampled_from(["addr-inside", "addr-any", "net-inside", "net-any", "net-super", "net-equal", "net-adjacent"]))
    if kind == "addr-inside":
        x = net | draw(st.integers(0, (1 << (32 - pn)) - 1))
        return net, pn, x, None
    if kind == "addr-any":
        return net, pn, draw(st.integers(0, 2**32 - 1)), None
    if kind == "net-equal":
        return net, pn, net, pn
    if kind == "net-inside":
        px = draw(st.integers(pn, 32))
        x = (net | draw(st.integers(0, (1 << (32 - pn)) - 1))) & ~((1 << (32 - px)) - 1) & 0xFFFFFFFF
        return net, pn, x, px
    if kind == "net-super":
        px = draw(st.integers(0, pn))
        return net, pn, net & ~((1 << (32 - px)) - 1) & 0xFFFFFFFF, px
    if kind == "net-adjacent":
        x = (net + (1 << (32 - pn))) & 0xFFFFFFFF if pn > 0 else net
        return net, pn, x & ~((1 << (32 - pn)) - 1) & 0xFFFFFFFF, pn
    px = draw(st.integers(0, 32))
    x = draw(st.integers(0, 2**32 - 1)) & ~((1 << (32 - px)) - 1) & 0xFFFFFFFF
    return net, pn, x, px


def check_cidr(run: common.Run, net: int, pn: int, x: int, px: Optional[int], report) -> None:
    run.tick()
    ntext = f"{ip_text(net)}/{pn}"
    xtext = ip_text(x) if px is None else f"{ip_text(x)}/{px}"
    if px is None:
        inside = (x >> (32 - pn)) == (net >> (32 - pn)) if pn else True
    else:
        inside = px >= pn and ((x >> (32 - pn)) == (net >> (32 - pn)) if pn else True)
    run.nt(("cidr", ntext, xtext))
    run.event("cidr-inside" if inside else "cidr-outside")
    case = {"helper": "cidr", "net": net, "pn": pn, "x": x, "px": px, "n_text": ntext, "x_text": xtext}
    n, xx = ct.StringType(ntext), ct.StringType(xtext)
    d = direct(lambda a, b: c7n.parse_cidr(a).contains(c7n.parse_cidr(b)), n, xx)
    d = ("value", None, ("bool", bool(d[2][1]))) if d[0] == "value" and d[2][0] == "bool" else d
    agree(run, "parse_cidr.contains", ("bool", inside), [("direct", d), ("cel-method", via_cel("parse_cidr(n).contains(parse_cidr(x))", {"n": n, "x": xx})),
                                                        ("cel-method2", via_cel("n.parse_cidr().contains(x.parse_cidr())", {"n": n, "x": xx}))], case, report)
    agree(run, "size_parse_cidr", ("int", pn), [("direct", direct(c7n.size_parse_cidr, n)), ("cel-fn", via_cel("size_parse_cidr(n)", {"n": n})), ("cel-method", via_cel("n.size_parse_cidr()", {"n": n}))], case, report)
    run.sample({"network": ntext, "x": xtext, "inside": inside}, bucket="cidr")


def check_cidr_hostbits(run: common.Run, addr: int, pn: int, report) -> None:
    """Host bits set: the statement does not say what the answer is; only that nothing but a CEL error may come out."""
    run.tick()
    t = ct.StringType(f"{ip_text(addr)}/{pn}")
    for src in ("size_parse_cidr(n)", "parse_cidr(n).contains(parse_cidr('10.0.0.1'))"):
        o = via_cel(src, {"n": t})
        if o[0] == "crash":
            report(f"cidr-hostbits-crash-{o[1]}", {"helper": "cidr-hostbits", "addr": addr, "pn": pn}, f"{src} with {t}: {o}")


# --- versions -----------------------------------------------------------------------------------------------


def check_version(run: common.Run, a: List[int], b: List[int], report) -> None:
    run.tick()
    ta, tb = ".".join(map(str, a)), ".".join(map(str, b))

    def norm(v):
        v = list(v)
        while v and v[-1] == 0:
            v.pop()
        return tuple(v)

    na, nb = norm(a), norm(b)
    if any(x >= 10 for x in a + b) and na != nb:
        run.nt(("ver", ta, tb))
        run.event("nontrivial")
    binds = {"a": ct.StringType(ta), "b": ct.StringType(tb)}
    case = {"helper": "version", "a": a, "b": b}
    for op, want in (("<", na < nb), ("==", na == nb), (">", na > nb), ("<=", na <= nb), (">=", na >= nb), ("!=", na != nb)):
        agree(run, f"version{op}", ("bool", want), [("cel", via_cel(f"version(a) {op} version(b)", binds)), ("cel-method", via_cel(f"a.version() {op} b.version()", binds))], case, report)
    import operator

    agree(run, "version<", ("bool", na < nb), [("direct", direct(lambda x, y: ct.BoolType(c7n.version(x) < c7n.version(y)), binds["a"], binds["b"]))], case, report)
    run.sample({"a": ta, "b": tb, "a<b": na < nb}, bucket="version")


# --- tags, marked_key, arn ----------------------------------------------------------------------------------


def tags_value(tags: List[Tuple[str, str]]) -> Any:
    return ct.ListType([ct.MapType({ct.StringType("Key"): ct.StringType(k), ct.StringType("Value"): ct.StringType(v)}) for k, v in tags])


def check_key(run: common.Run, tags: List[Tuple[str, str]], k: str, report) -> None:
    run.tick()
    want: Any = ("null",)
    for kk, vv in tags:
        if kk == k:
            want = ("string", vv)
            break
    if sum(1 for kk, _ in tags if kk == k) >= 2:
        run.nt(("key", tuple(tags), k))
        run.event("nontrivial")
    T, K = tags_value(tags), ct.StringType(k)
    agree(run, "key", want, [("direct", direct(c7n.key, T, K)), ("cel-fn", via_cel("key(t, k)", {"t": T, "k": K})), ("cel-method", via_cel("t.key(k)", {"t": T, "k": K}))],
          {"helper": "key", "tags": [list(t) for t in tags], "k": k}, report)


def check_marked_key(run: common.Run, message: str, action: str, ymd: Tuple[int, int, int], sep_date: str, tagname: str, other_tags: List[Tuple[str, str]], report) -> None:
    run.tick()
    date_text = f"{ymd[0]:04d}{sep_date}{ymd[1]:02d}{sep_date}{ymd[2]:02d}"
    value = f"{message}:{action}@{date_text}"
    tags = other_tags + [(tagname, value)]
    want_us = calendar.days_from_civil(*ymd) * 86400 * 10**6
    want = ("map", tuple(sorted([(("string", "message"), ("string", message)), (("string", "action"), ("string", action)), (("string", "action_date"), ("timestamp", want_us))], key=repr)))
    if ":" in message or "@" in message:
        run.nt(("marked", value))
        run.event("nontrivial")
    T, K = tags_value(tags), ct.StringType(tagname)
    case = {"helper": "marked_key", "message": message, "action": action, "ymd": list(ymd), "sep": sep_date, "tag": tagname, "others": [list(t) for t in other_tags]}
    if any(k == tagname for k, _ in other_tags):
        return  # the first tag of that name wins: covered by check_key
    agree(run, "marked_key", want, [("direct", direct(c7n.marked_key, T, K)), ("cel-fn", via_cel("marked_key(t, k)", {"t": T, "k": K})), ("cel-method", via_cel("t.marked_key(k)", {"t": T, "k": K}))], case, report)
    agree(run, "marked_key.action", ("string", action), [("cel", via_cel("t.marked_key(k).action", {"t": T, "k": K}))], case, report)
    run.sample({"tag_value": value, "action": action}, bucket="marked")


def check_arn(run: common.Run, shape: int, f: Dict[str, str], report) -> None:
    run.tick()
    base = f"arn:{f['partition']}:{f['service']}:{f['region']}:{f['account-id']}"
    if shape == 0:
        arn, fields = f"{base}:{f['resource-id']}", {**{k: f[k] for k in ("partition", "service", "region", "account-id")}, "resource-id": f["resource-id"]}
    elif shape == 1:
        rid = f"{f['resource-type']}/{f['resource-id']}"
        arn, fields = f"{base}:{rid}", {**{k: f[k] for k in ("partition", "service", "region", "account-id")}, "resource-id": rid}
    else:
        rid2 = f["resource-id"] + f.get("tail", "")  # a resource-id may itself contain colons (log-group:name:*)
        arn, fields = f"{base}:{f['resource-type']}:{rid2}", {**{k: f[k] for k in ("partition", "service", "region", "account-id", "resource-type")}, "resource-id": rid2}
    run.nt(("arn", arn))
    A = ct.StringType(arn)
    for name, val in fields.items():
        N = ct.StringType(name)
        agree(run, "arn_split", ("string", val), [("direct", direct(c7n.arn_split, A, N)), ("cel-fn", via_cel("arn_split(a, n)", {"a": A, "n": N})), ("cel-method", via_cel("a.arn_split(n)", {"a": A, "n": N}))],
              {"helper": "arn", "shape": shape, "fields": f, "field": name}, report)
    run.sample({"arn": arn, "fields": fields}, bucket="arn")


# --- filter context -----------------------------------------------------------------------------------------


class HostBoom(Exception):
    pass


def check_context(run: common.Run, steps: List[str], report) -> None:
    """steps: 'ok' | 'celerror' | 'hostraise' | 'nested-ok'. After every step C7N must be None; during, C7N.filter is that call's sentinel."""
    run.tick()
    c7n.C7N = None  # every case starts from a clean process-wide context (a leak found by one case must not be blamed on the next)
    seen: List[Any] = []

    def probe() -> Any:
        seen.append(getattr(c7n.C7N, "filter", "NO-CONTEXT") if c7n.C7N is not None else "NO-CONTEXT")
        return ct.IntType(1)

    def boom() -> Any:
        seen.append(getattr(c7n.C7N, "filter", "NO-CONTEXT") if c7n.C7N is not None else "NO-CONTEXT")
        raise HostBoom("host function failed")

    fns = dict(c7n.FUNCTIONS, probe=probe, boom=boom)
    from celpy.celparser import CELParser

    cel.fresh_parser_for(celpy.InterpretedRunner)
    env = celpy.Environment(runner_class=c7n.C7N_Interpreted_Runner)
    progs = {"ok": "probe() == 1", "celerror": "probe() / 0 == 1", "hostraise": "probe() == 1 && boom() == 1", "nested-ok": "[1, 2].map(x, probe()).size() == 2"}
    compiled = {k: env.program(env.compile(v), functions=fns) for k, v in progs.items()}
    if any(s != "ok" and s != "nested-ok" for s in steps[:-1]):
        run.nt(("ctx", tuple(steps)))
        run.event("nontrivial")
    case = {"helper": "context", "steps": steps}
    for i, step in enumerate(steps):
        sentinel = f"filter-{i}"
        del seen[:]
        try:
            if step == "inside-with":
                # the documented context manager around an evaluation that installs its own context
                with c7n.C7NContext(filter=sentinel):
                    compiled["ok"].evaluate({}, filter=sentinel)
            elif step == "reentered-with":
                # one context object entered twice (a batch-level `with` around per-resource ones that reuse the object)
                ctx_obj = c7n.C7NContext(filter=sentinel)
                with ctx_obj:
                    with ctx_obj:
                        compiled["ok"].evaluate({}, filter=sentinel)
            else:
                compiled[step].evaluate({}, filter=sentinel)
            ended = "value"
        except CELEvalError:
            ended = "celerror"
        except HostBoom:
            ended = "hostraise"
        except Exception as ex:
            ended = "other:" + type(ex).__name__
        want_end = {"ok": "value", "nested-ok": "value", "celerror": "celerror", "hostraise": "hostraise", "inside-with": "value", "reentered-with": "value"}[step]
        if ended != want_end:
            report(f"context-step-{step}-ended-{ended}", dict(case, at=i), f"step {i} {step}: ended {ended}")
        if not seen or any(s != sentinel for s in seen):
            report(f"context-not-visible-during-{step}", dict(case, at=i), f"step {i} {step}: functions saw {seen}, expected {sentinel}")
        if c7n.C7N is not None:
            left = repr(c7n.C7N)
            c7n.C7N = None  # do not let one failure cascade
            report(f"context-not-cleared-after-{step}", dict(case, at=i), f"after step {i} ({step}) celpy.c7nlib.C7N is {left}")
    run.sample({"steps": steps}, bucket="ctx")


# ---------------------------------------------------------------------------------------------------------


def replay(run: common.Run, case: dict, key: str = ""):
    problems = []
    rep = lambda k, c, d: problems.append((k, d))
    h = case["helper"]
    if h == "sets":
        check_sets(run, case["a"], case["b"], rep)
    elif h == "normalize":
        check_normalize(run, case["s"], rep)
    elif h == "glob":
        pat = [tuple(p) if p[0] != "set" else ("set", p[1], frozenset(p[2])) for p in case["pattern"]]
        check_glob(run, pat, case["text"], rep)
    elif h == "cidr":
        check_cidr(run, case["net"], case["pn"], case["x"], case["px"], rep)
    elif h == "cidr-hostbits":
        check_cidr_hostbits(run, case["addr"], case["pn"], rep)
    elif h == "version":
        check_version(run, case["a"], case["b"], rep)
    elif h == "key":
        check_key(run, [tuple(t) for t in case["tags"]], case["k"], rep)
    elif h == "marked_key":
        check_marked_key(run, case["message"], case["action"], tuple(case["ymd"]), case["sep"], case["tag"], [tuple(t) for t in case["others"]], rep)
    elif h == "arn":
        check_arn(run, case["shape"], case["fields"], rep)
    elif h == "context":
        check_context(run, case["steps"], rep)
    return problems


def campaign(run: common.Run) -> None:
    q = run.tier == "quick"
    n = (lambda a, b: a if q else b)
    elems = st.one_of(st.sampled_from(["a", "b", "c", "A", ""]), st.integers(0, 3))
    lists = st.one_of(st.lists(st.sampled_from(["a", "b", "c", "A", ""]), max_size=4), st.lists(st.integers(0, 3), max_size=4))

    spairs = st.tuples(st.lists(st.sampled_from(["a", "b", "c", "A", ""]), max_size=4), st.lists(st.sampled_from(["a", "b", "c", "A", ""]), max_size=4))
    ipairs = st.tuples(st.lists(st.integers(0, 3), max_size=4), st.lists(st.integers(0, 3), max_size=4))
    common.drive(run, lambda ab: check_sets(run, ab[0], ab[1], run.hyp_fail), {"ab": st.one_of(spairs, ipairs)}, n(400, 6000), seed_salt=1)
    common.drive(run, lambda s: check_normalize(run, s, run.hyp_fail), {"s": st.one_of(values.text(8), st.text(alphabet=" \tAbC\n", max_size=6))}, n(200, 3000), seed_salt=2)
    common.drive(run, lambda c: check_glob(run, c[0], c[1], run.hyp_fail), {"c": glob_case()}, n(600, 10000), seed_salt=3)
    common.drive(run, lambda c: check_cidr(run, c[0], c[1], c[2], c[3], run.hyp_fail), {"c": cidr_case()}, n(500, 10000), seed_salt=4)
    common.drive(run, lambda a, p: check_cidr_hostbits(run, a, p, run.hyp_fail), {"a": st.integers(0, 2**32 - 1), "p": st.integers(0, 32)}, n(100, 1000), seed_salt=5)
    comp = st.one_of(st.integers(0, 12), st.integers(0, 999))
    vers = st.lists(comp, min_size=1, max_size=4)
    common.drive(run, lambda a, b: check_version(run, a, b, run.hyp_fail), {"a": vers, "b": st.one_of(vers, vers)}, n(300, 5000), seed_salt=6)
    tagk = st.sampled_from(["Name", "env", "Owner", "custodian_status", ""])
    tag = st.tuples(tagk, st.one_of(st.sampled_from(["", "x", "prod"]), values.text(5)))
    common.drive(run, lambda t, k: check_key(run, t, k, run.hyp_fail), {"t": st.lists(tag, max_size=5), "k": tagk}, n(300, 5000), seed_salt=7)
    msg = st.one_of(st.sampled_from(["Resource does not meet policy", "a:b", "x@y", "note: see a@b: now", ""]), st.text(alphabet="ab :@-", max_size=10))
    act = st.sampled_from(["stop", "delete", "terminate", "mark-for-op", "notify"])
    ymd = st.tuples(st.integers(1971, 2100), st.integers(1, 12), st.integers(1, 28))
    common.drive(run, lambda m, a, d, s, t, o: check_marked_key(run, m, a, d, s, t, o, run.hyp_fail),
                 {"m": msg, "a": act, "d": ymd, "s": st.sampled_from(["/", "-"]), "t": st.sampled_from(["custodian_status", "maid_status"]), "o": st.lists(tag, max_size=2)}, n(300, 5000), seed_salt=8)
    word = st.text(alphabet="abcxyz0123456789-_", min_size=0, max_size=8)
    fields = st.fixed_dictionaries({"partition": st.sampled_from(["aws", "aws-cn", "aws-us-gov"]), "service": word, "region": word, "account-id": st.text(alphabet="0123456789", max_size=12),
                                    "resource-type": st.text(alphabet="abcxyz-", min_size=1, max_size=6), "resource-id": st.text(alphabet="abcxyz0123456789-_.", min_size=1, max_size=10),
                                    "tail": st.sampled_from(["", "", ":*", ":sub:id", ":a", ":", "::x"])})
    common.drive(run, lambda s, f: check_arn(run, s, f, run.hyp_fail), {"s": st.integers(0, 2), "f": fields}, n(200, 4000), seed_salt=9)
    common.drive(run, lambda steps: check_context(run, steps, run.hyp_fail), {"steps": st.lists(st.sampled_from(["ok", "celerror", "hostraise", "nested-ok", "inside-with", "reentered-with"]), min_size=1, max_size=6)}, n(150, 3000), seed_salt=10)


def main(run: common.Run) -> None:
    run.assumptions = [
        "glob patterns are built structurally (literals, *, ?, [set], [!set]); metacharacters meant literally are written [c]; case-sensitive matching (POSIX fnmatch)",
        "networks have their host bits cleared; for host-bits-set inputs only 'no exception other than a CEL error' is asserted",
        "marked_key dates are YYYY/MM/DD or YYYY-MM-DD (no ':' inside the date), action_date compared as midnight UTC",
        "version = dotted non-negative integers; equality ignores trailing .0 components (PEP 440, as packaging.Version)",
    ]
    for p in common.committed_replays(run.pid):
        doc = common.load_replay(p)
        for k, d in replay(run, doc["case"], doc.get("key", "")):
            run.fail(k, doc["case"], d)
        run.event("replayed")
    # every prefix length, both inside and outside, exhaustively for two base networks
    for base in (10 << 24, (172 << 24) | (16 << 16) | (5 << 8) | 77):
        for pn in range(0, 33):
            net = base & ~((1 << (32 - pn)) - 1) & 0xFFFFFFFF
            check_cidr(run, net, pn, base, None, run.fail)
            check_cidr(run, net, pn, (net + (1 << (32 - pn))) & 0xFFFFFFFF if pn else net, None, run.fail)
            for px in (pn, min(pn + 1, 32), max(pn - 1, 0), 32):
                check_cidr(run, net, pn, base & ~((1 << (32 - px)) - 1) & 0xFFFFFFFF, px, run.fail)
    if run.tier == "quick":
        campaign(run)
    else:
        for s in common.run_sharded(run.pid, run.tier, run.seed, campaign, 16, RULE):
            run.merge(s)
