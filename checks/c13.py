"""C13 — results carry their CEL type: type() and API values agree with the language.

For well-typed generated programs: (a) the returned object's exact class (recursively) is the library class of the
CEL type the reference evaluator assigns; (b) `type(e) == N` is true for exactly the matching name among the twelve;
(c) `type(x op y) == type(x)` for closed operators. Both runners.
"""

from __future__ import annotations

from typing import Any, Dict, List, Tuple

from hypothesis import strategies as st

from vf import cel, common, gen, ir, localize, outcome, refcel

RULE = (
    "type-directed programs (each operator, function, macro - over lists and over maps - and conversion at the root and nested; depth <= 3), root templates with fixed and "
    "with generated activations, nested macros, JSON-document navigation; "
    "(a) exact class skeleton of the returned value vs the class of the reference value's CEL type, containers recursively; "
    "(b) type(e) == N for the 12 type names; (c) type(x op y) == type(x) for arithmetic, concatenation, time arithmetic. "
    "non-trivial = root is an operator/function/macro result (not a literal or variable) and evaluates to a value. distinct by source+bindings."
)

CLASS_OF = {"int": "IntType", "uint": "UintType", "double": "DoubleType", "bool": "BoolType", "string": "StringType", "bytes": "BytesType",
            "null": "NoneType", "timestamp": "TimestampType", "duration": "DurationType", "list": "ListType", "map": "MapType"}
TYPE_NAMES = ["int", "uint", "double", "bool", "string", "bytes", "list", "map", "null_type", "timestamp", "duration", "type"]


def expected_classes(v: Tuple) -> Any:
    t = v[0]
    if t == "list":
        return ("ListType", tuple(expected_classes(x) for x in v[1]))
    if t == "map":
        items = [(repr(refcel.to_canon(k)), expected_classes(k), expected_classes(x)) for k, x in v[1]]
        items.sort()
        return ("MapType", tuple((a, b) for _, a, b in items))
    if t == "type":
        return "type"
    return CLASS_OF[t]


def first_diff(exp: Any, got: Any, path: str = "") -> str:
    if isinstance(exp, tuple) and isinstance(got, tuple) and exp[0] == got[0] and len(exp[1]) == len(got[1]):
        for i, (e, g) in enumerate(zip(exp[1], got[1])):
            if e != g:
                if isinstance(e, tuple) and len(e) == 2 and not isinstance(e[0], str):
                    for j, (ee, gg) in enumerate(zip(e, g)):
                        if ee != gg:
                            return first_diff(ee, gg, f"{path}[{i}].{'key' if j == 0 else 'value'}")
                return first_diff(e, g, f"{path}[{i}]")
    e = exp[0] if isinstance(exp, tuple) else exp
    g = got[0] if isinstance(got, tuple) else got
    return f"{path or 'root'}: {g} expected {e}"


def ref_value(node: Tuple, renv: Dict[str, Tuple]) -> Any:
    try:
        v = refcel.Evaluator(renv).ev(node)
    except (refcel.Unspecified, RecursionError):
        return None
    return None if v is refcel.ERR else v


def class_ok(exp: Any, got: Any) -> bool:
    if exp == "type":
        return True  # the value of type(e) is a type object; its identity is checked through (b)
    return exp == got


def check_program(run: common.Run, node: Tuple, T: str, env: Dict[str, Tuple[str, Any]], report) -> None:
    renv = gen.ref_env(env)
    rv = ref_value(node, renv)
    if rv is None:
        run.event("skipped-error-or-unspecified")
        return
    run.tick()
    src = ir.render(node)
    binds = gen.bind_env(env)
    exp = expected_classes(rv)
    if node[0] not in ("lit", "var"):
        run.nt((src, repr(sorted(env.items()))))
        run.event("nontrivial")
    run.event("root:" + localize.describe(node))
    run.event("type:" + rv[0])
    used = sorted({x[1] for x in ir.walk(node) if x[0] == "var"})
    case = {"src": src, "node": node, "T": T, "env": {k: list(v) for k, v in env.items() if k in used}}
    for r in ("I", "C"):
        o = cel.evaluate(src, binds, r)
        if o[0] != "value":
            run.event("runner-not-a-value")  # C09/C03 own value/error agreement
            continue
        # (a)
        if not class_ok(exp, o[1]):
            def bad(sub: Tuple, r=r) -> bool:
                sv = ref_value(sub, renv)
                if sv is None:
                    return False
                so = cel.evaluate(ir.render(sub), binds, r)
                return so[0] == "value" and not class_ok(expected_classes(sv), so[1])

            c = localize.culprit(node, bad)
            cv = ref_value(c, renv)
            co = cel.evaluate(ir.render(c), binds, r)
            diff = first_diff(expected_classes(cv), co[1]) if cv is not None and co[0] == "value" else "?"
            operand = ""
            if c[0] == "bin" and cv is not None:
                lv = ref_value(c[2], renv)
                operand = f"({lv[0]})" if lv is not None else ""
            key = f"{r}-class-{localize.describe(c)}{operand}-{diff.split(': ')[1].replace(' ', '-')}"
            if r == "C" and any(x[0] == "has" for x in ir.walk(c)) and diff.endswith("bool expected BoolType"):
                key = "C-class-has-bool-expected-BoolType"  # the Python bool produced by compiled has(), seen through a macro body / container
            report(key, dict(case, route=r, culprit=ir.render(c)), f"{ir.render(c)}: {diff}")
        # (b)
        want_name = refcel.type_name(rv)
        for name in TYPE_NAMES:
            run.tick()
            o2 = cel.evaluate(f"type({src}) == {name}", binds, r)
            want = ("bool", name == want_name)
            if not (o2[0] == "value" and o2[2] == want):
                got = o2[2] if o2[0] == "value" else o2[0]
                c = localize.describe(node)
                report(f"{r}-type()-of-{c}-{want_name}-vs-{name}-{'not-true' if name == want_name else 'not-false'}", dict(case, route=r, type_test=name),
                       f"type({src}) == {name}: expected {want} got {got}")
                break
        # (c)
        if node[0] == "bin" and node[1] in ("+", "-", "*", "/", "%"):
            lv = ref_value(node[2], renv)
            if lv is not None and lv[0] == rv[0]:
                run.tick()
                run.event("closed-operator")
                o3 = cel.evaluate(f"type({src}) == type({ir.render(node[2])})", binds, r)
                if not (o3[0] == "value" and o3[2] == ("bool", True)):
                    report(f"{r}-closed-op-{node[1]}({rv[0]})-type-differs-from-operand", dict(case, route=r), f"type({src}) == type(left) gave {outcome.short(o3)[:100]}")
    run.sample({"src": src, "cel_type": refcel.type_name(rv)}, bucket=localize.describe(node))


def root_templates() -> List[Tuple[Tuple, str]]:
    """Every operator / function / macro / conversion of the built-in library once at the root, over typed variables."""
    V = lambda n: ("var", n)
    L = lambda k, v: ("lit", k, v)
    out: List[Tuple[Tuple, str]] = []
    num = {"int": ("i1", "i2"), "uint": ("u1", "u2"), "double": ("d1", "d2")}
    for k, (a, b) in num.items():
        for op in ["+", "-", "*", "/"] + (["%"] if k != "double" else []):
            out.append((("bin", op, V(a), V(b)), k))
            out.append((("bin", op, V(a), L(k, {"int": 3, "uint": 3, "double": 0.5}[k])), k))
    out += [(("un", "-", V("i1")), "int"), (("un", "-", V("d1")), "double"), (("un", "!", V("b1")), "bool")]
    for k, (a, b) in {"string": ("s1", "s2"), "bytes": ("y1", "y2"), "list<int>": ("li", "li2"), "list<string>": ("ls", "ls")}.items():
        out.append((("bin", "+", V(a), V(b)), k))
    out += [(("bin", "+", V("t1"), V("dd1")), "timestamp"), (("bin", "+", V("dd1"), V("t1")), "timestamp"), (("bin", "-", V("t1"), V("dd1")), "timestamp"),
            (("bin", "-", V("t1"), V("t2")), "duration"), (("bin", "+", V("dd1"), V("dd2")), "duration"), (("bin", "-", V("dd1"), V("dd2")), "duration")]
    ordered = {"int": ("i1", "i2"), "uint": ("u1", "u2"), "double": ("d1", "d2"), "string": ("s1", "s2"), "bytes": ("y1", "y2"), "bool": ("b1", "b2"),
               "timestamp": ("t1", "t2"), "duration": ("dd1", "dd2")}
    for k, (a, b) in ordered.items():
        for op in ["<", "<=", ">", ">=", "==", "!="]:
            out.append((("bin", op, V(a), V(b)), "bool"))
    for a, b in [("li", "li2"), ("msi", "msi"), ("ll", "ll"), ("n0", "n0")]:
        out += [(("bin", "==", V(a), V(b)), "bool"), (("bin", "!=", V(a), V(b)), "bool")]
    out += [(("bin", "in", V("i1"), V("li")), "bool"), (("bin", "in", V("s1"), V("msi")), "bool"), (("bin", "in", V("s1"), V("ls")), "bool"),
            (("has", V("msi"), "a"), "bool"), (("has", V("msi"), "zz"), "bool"),
            (("bin", "&&", V("b1"), V("b2")), "bool"), (("bin", "||", V("b1"), V("b2")), "bool"),
            (("cond", V("b1"), V("i1"), V("i2")), "int"), (("cond", V("b1"), V("s1"), V("s2")), "string"), (("cond", V("b1"), V("li"), V("li2")), "list<int>")]
    for fn in ["contains", "startsWith", "endsWith"]:
        out.append((("method", V("s1"), fn, (V("s2"),)), "bool"))
    out += [(("method", V("s1"), "matches", (L("string", "a+"),)), "bool"), (("call", "matches", (V("s1"), L("string", "^b"))), "bool")]
    for recv in ["s1", "y1", "li", "msi"]:
        out += [(("call", "size", (V(recv),)), "int"), (("method", V(recv), "size", ()), "int")]
    for m in ["all", "exists", "exists_one"]:
        out.append((("macro", V("li"), m, "x", ("bin", ">", V("x"), L("int", 1))), "bool"))
        out.append((("macro", V("msi"), m, "x", ("bin", "==", V("x"), L("string", "a"))), "bool"))
    out += [(("macro", V("li"), "map", "x", ("bin", "+", V("x"), L("int", 1))), "list<int>"), (("macro", V("li"), "map", "x", ("bin", "*", V("d1"), V("d1"))), "list<double>"),
            (("macro", V("li"), "map", "x", ("bin", "+", V("s1"), V("s2"))), "list<string>"), (("macro", V("li"), "filter", "x", ("bin", ">", V("x"), L("int", 1))), "list<int>"),
            (("macro", V("ls"), "filter", "x", ("bin", "!=", V("x"), L("string", "a"))), "list<string>"), (("macro", V("msi"), "map", "k", V("k")), "list<string>")]
    # macros over maps iterate over the keys: predicates that keep every key, some keys, no key
    for recv, kk, keep_all, keep_some in [("msi", "string", ("bin", "!=", V("k"), L("string", "q")), ("bin", "==", V("k"), L("string", "a"))),
                                          ("mis", "int", ("bin", "==", V("k"), V("k")), ("bin", ">", V("k"), L("int", 0))),
                                          ("mbs", "bool", ("bin", "||", V("k"), L("bool", True)), V("k"))]:
        for pred in (keep_all, keep_some, L("bool", False)):
            out.append((("macro", V(recv), "filter", "k", pred), f"list<{kk}>"))
            for m in ["all", "exists", "exists_one"]:
                out.append((("macro", V(recv), m, "k", pred), "bool"))
        out.append((("macro", V(recv), "map", "k", ("index", V(recv), V("k"))), "list<dyn>"))
        out.append((("bin", "+", ("macro", V(recv), "filter", "k", keep_all), ("macro", V(recv), "map", "k", V("k"))), f"list<{kk}>"))
    out += [(("macro", V("li"), "filter", "x", ("bin", "==", V("x"), V("x"))), "list<int>"), (("macro", V("li"), "filter", "x", L("bool", False)), "list<int>"),
            (("macro", V("ll"), "filter", "x", ("bin", "==", V("x"), V("x"))), "list<list<int>>"), (("macro", V("ll"), "map", "x", ("macro", V("x"), "filter", "y", L("bool", True))), "list<list<int>>")]
    conv = {"int": ["i1", "u1", "d1", "sn"], "uint": ["u1", "i2", "d1", "sn"], "double": ["i1", "u1", "d1"], "string": ["i1", "u1", "s1", "y1"], "bytes": ["s1", "y1"]}
    for T, srcs in conv.items():
        for v in srcs:
            out.append((("call", T, (V(v),)), T))
    for v in ["i1", "u1", "d1", "b1", "s1", "y1", "li", "msi", "n0", "t1", "dd1"]:
        out.append((("call", "type", (V(v),)), "type"))
    out += [(("call", "type", (("call", "type", (V("i1"),)),)), "type"),
            (("index", V("li"), L("int", 0)), "int"), (("index", V("ls"), L("int", 0)), "string"), (("index", V("msi"), L("string", "a")), "int"),
            (("index", V("ll"), L("int", 0)), "list<int>"), (("select", V("msi"), "a"), "int"), (("select", V("msl"), "a"), "list<int>"),
            (("list", (V("i1"), V("i2"))), "list<int>"), (("list", ()), "list<int>"), (("map", ((V("s1"), V("i1")),)), "map<string,int>"), (("map", ()), "map<string,int>"),
            (("call", "timestamp", (L("string", "2009-02-13T23:31:30Z"),)), "timestamp"), (("call", "duration", (L("string", "90s"),)), "duration"),
            (("method", V("t1"), "getFullYear", ()), "int"), (("method", V("t1"), "getHours", (L("string", "+01:00"),)), "int"),
            (("call", "dyn", (V("i1"),)), "int")]
    return out


TEMPLATE_KINDS = dict(gen.VAR_KINDS, u2="uint", d2="double", y2="bytes", li2="list<int>", n0="null", sn="string")
TEMPLATE_ENVS = [
    {"i1": 7, "i2": 2, "u1": 5, "u2": 3, "d1": 2.5, "d2": 0.5, "b1": True, "b2": False, "s1": "ab", "s2": "a", "y1": b"ab", "y2": b"\xff", "li": [1, 2, 3], "li2": [2],
     "ls": ["a", "b"], "ll": [[1], []], "msi": {"a": 1, "b": 2}, "mis": {1: "a", 2: "b"}, "mbs": {True: "t"}, "msl": {"a": [1]}, "t1": 1234567890 * 10**6, "t2": 0, "dd1": 90 * 10**6, "dd2": -10**6, "n0": None, "sn": "42"},
    {"i1": -3, "i2": -2, "u1": 0, "u2": 1, "d1": -0.0, "d2": 1e10, "b1": False, "b2": False, "s1": "", "s2": "", "y1": b"", "y2": b"", "li": [2], "li2": [2],
     "ls": ["a"], "ll": [[2, 3]], "msi": {"a": 0}, "mis": {}, "mbs": {}, "msl": {"a": []}, "t1": 951782400 * 10**6, "t2": 951782400 * 10**6, "dd1": 0, "dd2": 0, "n0": None, "sn": "7"},
    {"i1": 1, "i2": 1, "u1": 9, "u2": 9, "d1": 1.0, "d2": 3.0, "b1": True, "b2": True, "s1": "\U0001f431a", "s2": "a", "y1": b"\x00", "y2": b"a", "li": [5, 0, 5], "li2": [],
     "ls": ["b", "a", "a"], "ll": [[0]], "msi": {"a": 5, "zz": 1}, "mis": {-1: "", 0: "z", 3: "q"}, "mbs": {True: "t", False: "f"}, "msl": {"a": [1, 2]}, "t1": 86399 * 10**6, "t2": 86400 * 10**6, "dd1": 3600 * 10**6, "dd2": 1, "n0": None, "sn": "0"},
]


def check_templates(run: common.Run, report) -> None:
    n = 0
    for node, T in root_templates():
        used = sorted({x[1] for x in ir.walk(node) if x[0] == "var" and x[1] in TEMPLATE_KINDS})
        for payloads in TEMPLATE_ENVS:
            env = {k: (TEMPLATE_KINDS[k], payloads[k]) for k in used}
            check_program(run, node, T, env, report)
            n += 1
    run.extra["root_templates"] = len(root_templates())
    run.extra["root_template_cases"] = n


def template_case():
    """A root template with GENERATED payloads for its variables (the three fixed environments above cover each production; these cover its inputs)."""
    templates = root_templates()

    @st.composite
    def strat(draw):
        node, T = templates[draw(st.integers(0, len(templates) - 1))]
        used = sorted({x[1] for x in ir.walk(node) if x[0] == "var" and x[1] in TEMPLATE_KINDS})
        env = {k: (TEMPLATE_KINDS[k], "42" if k == "sn" else draw(gen.payload_of(TEMPLATE_KINDS[k]))) for k in used}
        return node, T, env

    return strat()


def _node(x):
    return tuple(_node(i) for i in x) if isinstance(x, (list, tuple)) else x


def replay(run: common.Run, case: dict, key: str = ""):
    problems = []
    env = {k: (v[0], v[1]) for k, v in case["env"].items()}
    check_program(run, _node(case["node"]), case.get("T", "?"), env, lambda k, c, d: problems.append((k, d)))
    return problems


def campaign(run: common.Run) -> None:
    q = run.tier == "quick"

    def body(p):
        node, T, env = p
        check_program(run, node, T, env, run.hyp_fail)

    # shallow programs put each production at the root; deeper ones nest them
    common.drive(run, body, {"p": gen.typed_program(1)}, 200 if q else 3000, seed_salt=1)
    common.drive(run, body, {"p": gen.typed_program(3)}, 300 if q else 3000, seed_salt=2)
    common.drive(run, body, {"p": template_case()}, 350 if q else 5000, seed_salt=5)
    # nested macros (list or map receivers) and navigation of JSON-like documents (null / empty members included)
    common.drive(run, body, {"p": gen.nested_macro_program()}, 150 if q else 1500, seed_salt=3)
    common.drive(run, body, {"p": gen.document_program()}, 250 if q else 2000, seed_salt=4)


def main(run: common.Run) -> None:
    run.assumptions = [
        "the CEL type of an expression is the type of the reference evaluator's value (equals the generator's static type for well-typed programs)",
        "programs whose reference outcome is an error or unspecified are skipped (counted); runner errors are C09/C03's subject",
        "the identity of the object returned by type(e) is checked through `type(e) == N`, not through its Python class",
    ]
    for p in common.committed_replays(run.pid):
        doc = common.load_replay(p)
        for k, d in replay(run, doc["case"], doc.get("key", "")):
            run.fail(k, doc["case"], d)
        run.event("replayed")
    check_templates(run, run.fail)
    if run.tier == "quick":
        campaign(run)
    else:
        for s in common.run_sharded(run.pid, run.tier, run.seed, campaign, 16, RULE):
            run.merge(s)
