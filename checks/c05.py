"""C05 — evaluation is a function of expression and bindings, independent of history.

Model-based generation of API histories {create Environment, compile+program, evaluate, re-evaluate}; each history runs in a child forked
from a process that has only imported celpy, so a history is a pure function of its operations; every evaluation in it is compared with the
same (environment configuration, expression, bindings) evaluated ALONE in a fresh process (vf.fresh.Zygote). Also: the caller's bindings are
unmodified, and re-evaluation gives the same outcome.
"""

from __future__ import annotations

import copy
import json
import os
from typing import Any, Dict, List, Optional, Tuple

from hypothesis import strategies as st

import celpy  # imported, never used in this (parent) process: histories run in forked children
from vf import common, fresh, hostfuncs, outcome

RULE = (
    "histories of <= 30 (quick) / 60 (thorough) operations {new Environment(runner class, package, annotations), compile+program, evaluate(bindings), re-evaluate} "
    "over pools of expressions and bindings built to touch shared state (dotted names, packages, macros, ||-absorbed errors, the same name bound then unbound, host functions given to "
    "one program as a list or a dict - one of them shadowing the built-in size() - and used by programs that were not given them); each "
    "history executed in a forked child of an import-only process. non-trivial = an evaluate preceded by an environment of the other runner class, by an evaluation of "
    "the same program with other bindings, by an evaluation with dotted bindings, or by a program built with other host functions. distinct by history."
)

EXPRS = ["x + 1", "x + y", "a.b", "a.b + x", "a.c", "a.b.c", "[1, 2].map(x, x + y)", "x > 0 || 1 / 0 == 1", "size([x, y])", "has(m.f)", "m.f", "v", "p.v", "true ? x : y",
         "type(x) == int", "[x].exists(x, x == 1)", "a", "x == 1 && a.b == 10", "1 + 2", "s + 'x'", "s.size()", "[1, 2, 3].filter(i, i > x)",
         "shout(s)", "size(s)", "s.shout()", "size([x, y]) + size(s)",
         # arguments that a process-wide cache keyed too loosely (case, whitespace, type) would confuse: zone names, patterns, conversions
         "timestamp('2009-02-13T23:31:30Z').getHours(z)", "'abc'.matches(z)", "timestamp('2009-02-13T23:31:30Z').getDate(z) + size(z)"]
BINDINGS: List[Dict[str, Any]] = [
    {"x": 1, "y": 2}, {"x": 5}, {}, {"a.b": 10}, {"a.b": 10, "x": 1}, {"a.b": 1, "a.c": 2}, {"a.c": 3}, {"a": {"b": 7}}, {"a": {"b": 7, "c": 8}, "x": 2}, {"a.b.c": 4},
    {"m": {"f": 1}}, {"m": {}}, {"p.v": 3}, {"v": 4}, {"p.q.v": 5, "v": 6}, {"s": "abc"}, {"x": 1, "y": 2, "s": "q"}, {"y": 9}, {"a.b": 20}, {"x": 0, "y": 0},
    {"z": "Asia/Tokyo"}, {"z": "asia/tokyo"}, {"z": "a.c"}, {"z": "A.C"}, {"z": "+09:00"}, {"z": "ASIA/TOKYO"},
]
ENVS = [(r, p, a) for r in ("I", "C") for p in (None, "p", "p.q") for a in ("none", "plain", "dotted")]
ANNOTATIONS = {"none": {}, "plain": {"x": "int", "s": "string"}, "dotted": {"a.b": "int", "x": "int"}}


def op_strategy():
    return st.one_of(
        st.tuples(st.just("env"), st.integers(0, len(ENVS) - 1)),
        st.tuples(st.just("prog"), st.integers(0, 50), st.integers(0, len(EXPRS) - 1), st.sampled_from([0, 0, 0, 1, 2, 3, 4])),
        st.tuples(st.just("eval"), st.integers(0, 50), st.integers(0, len(BINDINGS) - 1)),
        st.tuples(st.just("eval"), st.integers(0, 50), st.integers(0, len(BINDINGS) - 1)),
        st.tuples(st.just("reeval"), st.integers(0, 50)),
    )


def history_strategy(max_ops: int):
    # every history starts with one environment and one program so that evaluations are possible
    return st.tuples(st.integers(0, len(ENVS) - 1), st.integers(0, len(EXPRS) - 1), st.lists(op_strategy(), min_size=1, max_size=max_ops - 2)).map(
        lambda t: [("env", t[0]), ("prog", 0, t[1])] + list(t[2]))


def _build(v: Any) -> Any:
    from celpy import celtypes as ct

    if isinstance(v, dict):
        return ct.MapType({ct.StringType(k): _build(x) for k, x in v.items()})
    if isinstance(v, list):
        return ct.ListType([_build(x) for x in v])
    if isinstance(v, bool):
        return ct.BoolType(v)
    if isinstance(v, int):
        return ct.IntType(v)
    if isinstance(v, str):
        return ct.StringType(v)
    return v


def _child_run(ops: List[Tuple]) -> List[Any]:
    """Executed in the forked child: run the history against the real API; return one record per evaluation."""
    import logging

    logging.disable(logging.CRITICAL)
    from celpy import celtypes as ct

    fresh.speed_up_parser_construction()
    RUN = {"I": celpy.InterpretedRunner, "C": celpy.CompiledRunner}
    ANN = {"int": ct.IntType, "string": ct.StringType}
    envs: List[Tuple[Any, int]] = []
    progs: List[Tuple[Any, int, int, Any, int]] = []  # (program | None, env index, expr index, construction outcome, host-function config)
    last_bind: Dict[int, int] = {}
    records: List[Any] = []
    for i, op in enumerate(ops):
        if op[0] == "env":
            r, p, a = ENVS[op[1]]
            try:
                e = celpy.Environment(package=p, annotations={k: ANN[t] for k, t in ANNOTATIONS[a].items()} or None, runner_class=RUN[r])
                envs.append((e, op[1]))
            except Exception as ex:
                records.append({"at": i, "kind": "env-crash", "exc": type(ex).__name__})
        elif op[0] == "prog":
            if not envs:
                continue
            e, cfg = envs[op[1] % len(envs)]
            fn = op[3] if len(op) > 3 else 0
            try:
                ast = e.compile(EXPRS[op[2]])
                progs.append((e.program(ast, functions=hostfuncs.CONFIGS[fn]), cfg, op[2], None, fn))
            except Exception as ex:
                progs.append((None, cfg, op[2], ["crash", type(ex).__name__, "program"], fn))
        elif op[0] in ("eval", "reeval"):
            if not progs:
                continue
            pi = op[1] % len(progs)
            prgm, cfg, ei, construction, fn = progs[pi]
            if op[0] == "reeval":
                if pi not in last_bind:
                    continue
                bi = last_bind[pi]
            else:
                bi = op[2]
            last_bind[pi] = bi
            binds = {k: _build(v) for k, v in BINDINGS[bi].items()}
            before = {k: outcome.value_outcome(v) for k, v in binds.items()}
            keys_before = sorted(binds)
            if prgm is None:
                out = construction
            else:
                try:
                    v = prgm.evaluate(binds)
                    out = ["value", repr(outcome.value_outcome(v))]
                except celpy.CELEvalError:
                    out = ["error"]
                except Exception as ex:
                    out = ["crash", type(ex).__name__, "evaluate"]
            after = {k: outcome.value_outcome(v) for k, v in binds.items()}
            records.append({"at": i, "kind": op[0], "prog": pi, "cfg": cfg, "expr": ei, "bind": bi, "fn": fn, "out": out, "bindings_modified": before != after or keys_before != sorted(binds)})
    return records


def run_history(ops: List[Tuple]) -> List[Any]:
    r, w = os.pipe()
    pid = os.fork()
    if pid == 0:
        os.close(r)
        try:
            data = json.dumps(_child_run(ops))
        except BaseException as ex:  # pragma: no cover
            data = json.dumps([{"kind": "harness", "exc": f"{type(ex).__name__}: {ex}"}])
        os.write(w, data.encode())
        os._exit(0)
    os.close(w)
    buf = b""
    while True:
        chunk = os.read(r, 65536)
        if not chunk:
            break
        buf += chunk
    os.close(r)
    os.waitpid(pid, 0)
    return json.loads(buf.decode())


_ZYGOTE: Optional[fresh.Zygote] = None


def zygote() -> fresh.Zygote:
    global _ZYGOTE
    if _ZYGOTE is None:
        _ZYGOTE = fresh.Zygote()
    return _ZYGOTE


def influences(ops: List[Tuple], records: List[Any], rec: Any) -> List[str]:
    """What earlier operations could have influenced this evaluation (for the non-trivial rule and for root-cause keys)."""
    out = []
    my_runner = ENVS[rec["cfg"]][0]
    envs_before = [ENVS[o[1]][0] for o in ops[: rec["at"]] if o[0] == "env"]
    if any(r != my_runner for r in envs_before):
        first_other = next(i for i, r in enumerate(envs_before) if r != my_runner)
        first_mine = next(i for i, r in enumerate(envs_before) if r == my_runner)
        out.append("other-runner-env-first" if first_other < first_mine else "other-runner-env-later")
    earlier = [r for r in records if r.get("kind") in ("eval", "reeval") and r["at"] < rec["at"]]
    if any(r["prog"] == rec["prog"] and r["bind"] != rec["bind"] for r in earlier):
        out.append("same-program-other-bindings")
    if any(any("." in k for k in BINDINGS[r["bind"]]) for r in earlier):
        out.append("earlier-dotted-bindings")
    progs_before = [o for o in ops[: rec["at"]] if o[0] == "prog"]
    mine = rec.get("fn", 0)
    if any((o[3] if len(o) > 3 else 0) not in (0, mine) for o in progs_before):
        out.append("earlier-program-with-other-host-functions")
    return out


def check_history(run: common.Run, ops: List[Tuple], report) -> None:
    ops = [tuple(o) for o in ops]
    records = run_history(ops)
    run.tick()
    if records and records[0].get("kind") == "harness":
        raise common.HarnessError(f"history runner failed: {records[0]['exc']}")
    z = zygote()
    nontrivial = False
    last_out: Dict[Tuple[int, int], Any] = {}
    case = {"ops": [list(o) for o in ops]}
    for rec in records:
        if rec.get("kind") == "env-crash":
            report(f"environment-constructor-raises-{rec['exc']}", dict(case, at=rec["at"]), f"Environment() raised {rec['exc']} at step {rec['at']}")
            continue
        r, p, a = ENVS[rec["cfg"]]
        alone = list(z.alone(r, p, ANNOTATIONS[a], EXPRS[rec["expr"]], BINDINGS[rec["bind"]], rec.get("fn", 0)))
        run.tick()
        infl = influences(ops, records, rec)
        if infl:
            nontrivial = True
            for i in infl:
                run.event("influence:" + i)
        if rec["out"] != alone:
            mode = "crash-" + "-".join(rec["out"][1:]) if rec["out"][0] == "crash" else f"{rec['out'][0]}-vs-alone-{alone[0]}"
            dotted = "dotted-name-expr" if "." in EXPRS[rec["expr"]] or any("." in k for k in BINDINGS[rec["bind"]]) else "plain"
            report(f"{r}-history-dependent[{'+'.join(infl) or 'no-known-influence'}|{dotted}]-{mode}", dict(case, at=rec["at"], expr=EXPRS[rec["expr"]], bindings=BINDINGS[rec["bind"]], env=[r, p, a]),
                   f"step {rec['at']}: {EXPRS[rec['expr']]} with {BINDINGS[rec['bind']]} in env {(r, p, a)} gave {rec['out']}, alone in a fresh process {alone}")
        if rec["bindings_modified"]:
            report(f"{r}-bindings-modified", dict(case, at=rec["at"]), f"step {rec['at']}: evaluate() modified the caller's bindings {BINDINGS[rec['bind']]}")
        k = (rec["prog"], rec["bind"])
        if rec["kind"] == "reeval" and k in last_out and last_out[k] != rec["out"]:
            report(f"{r}-re-evaluation-differs", dict(case, at=rec["at"]), f"step {rec['at']}: re-evaluation gave {rec['out']} after {last_out[k]}")
        last_out[k] = rec["out"]
    if nontrivial:
        run.nt(json.dumps(case))
        run.event("nontrivial")
    run.event(f"evaluations-in-history:{min(len(records), 10)}")
    run.sample({"history": [_describe(o) for o in ops][:12], "evaluations": len(records)}, bucket=str(len(records) > 3))


def _describe(o: Tuple) -> str:
    if o[0] == "env":
        return f"Environment{ENVS[o[1]]}"
    if o[0] == "prog":
        return f"program(env#{o[1]}, {EXPRS[o[2]]!r}, functions={hostfuncs.NAMES[o[3] if len(o) > 3 else 0]})"
    if o[0] == "eval":
        return f"evaluate(prog#{o[1]}, {BINDINGS[o[2]]})"
    return f"re-evaluate(prog#{o[1]})"


FIXED_HISTORIES = [
    # an interpreted environment created first, then a compiled one
    [("env", ENVS.index(("I", None, "none"))), ("prog", 0, 0), ("eval", 0, 0), ("env", ENVS.index(("C", None, "none"))), ("prog", 1, 0), ("eval", 1, 0)],
    [("env", ENVS.index(("C", None, "none"))), ("prog", 0, 0), ("eval", 0, 0), ("env", ENVS.index(("I", None, "none"))), ("prog", 1, 0), ("eval", 1, 0), ("prog", 0, 1), ("eval", 2, 0)],
    # dotted binding present, then omitted, on the same program
    [("env", ENVS.index(("C", None, "none"))), ("prog", 0, EXPRS.index("a.b")), ("eval", 0, 3), ("eval", 0, 2), ("eval", 0, 6)],
    [("env", ENVS.index(("I", None, "none"))), ("prog", 0, EXPRS.index("a.b")), ("eval", 0, 3), ("eval", 0, 2), ("eval", 0, 6)],
    [("env", ENVS.index(("C", None, "dotted"))), ("prog", 0, EXPRS.index("a.b + x")), ("eval", 0, 4), ("eval", 0, 1), ("reeval", 0)],
    [("env", ENVS.index(("C", "p", "none"))), ("prog", 0, EXPRS.index("v")), ("eval", 0, 12), ("eval", 0, 13), ("eval", 0, 2)],
    [("env", ENVS.index(("C", None, "none"))), ("prog", 0, EXPRS.index("x + y")), ("eval", 0, 0), ("eval", 0, 1), ("eval", 0, 17), ("reeval", 0)],
    [("env", ENVS.index(("C", None, "none"))), ("prog", 0, EXPRS.index("a.c")), ("eval", 0, 5), ("eval", 0, 3)],
    # a program given host functions (list / dict form, one shadowing a built-in), then programs that were not given them
    [("env", ENVS.index(("I", None, "none"))), ("prog", 0, EXPRS.index("size(s)"), 0), ("eval", 0, 15), ("prog", 0, EXPRS.index("shout(s)"), 3), ("eval", 1, 15), ("reeval", 0),
     ("prog", 0, EXPRS.index("size(s)"), 0), ("eval", 2, 15), ("prog", 0, EXPRS.index("shout(s)"), 0), ("eval", 3, 15),
     ("env", ENVS.index(("C", None, "none"))), ("prog", 1, EXPRS.index("size(s)"), 0), ("eval", 4, 15)],
    # an environment with dotted declarations first, then environments without declarations whose bindings use the declared prefix as a plain map
    [("env", ENVS.index(("I", None, "dotted"))), ("prog", 0, EXPRS.index("x + 1"), 0), ("eval", 0, 0),
     ("env", ENVS.index(("I", None, "none"))), ("prog", 1, EXPRS.index("a.c"), 0), ("eval", 1, BINDINGS.index({"a": {"b": 7, "c": 8}, "x": 2})),
     ("env", ENVS.index(("C", None, "none"))), ("prog", 2, EXPRS.index("a.c"), 0), ("eval", 2, BINDINGS.index({"a": {"b": 7, "c": 8}, "x": 2})),
     ("prog", 1, EXPRS.index("a"), 0), ("eval", 3, BINDINGS.index({"a": {"b": 7}})), ("env", ENVS.index(("C", "p", "plain"))), ("prog", 3, EXPRS.index("s + 'x'"), 0), ("eval", 4, 15),
     ("env", ENVS.index(("I", None, "none"))), ("prog", 4, EXPRS.index("s.size()"), 0), ("eval", 5, BINDINGS.index({"s": "abc"})), ("prog", 4, EXPRS.index("x + y"), 0), ("eval", 6, 0)],
    # an argument spelled slightly wrong, before and after the right spelling has been used by another program (in another environment)
    [("env", ENVS.index(("I", None, "none"))), ("prog", 0, EXPRS.index("timestamp('2009-02-13T23:31:30Z').getHours(z)"), 0), ("eval", 0, BINDINGS.index({"z": "asia/tokyo"})),
     ("env", ENVS.index(("C", None, "none"))), ("prog", 1, EXPRS.index("timestamp('2009-02-13T23:31:30Z').getDate(z) + size(z)"), 0), ("eval", 1, BINDINGS.index({"z": "Asia/Tokyo"})),
     ("eval", 0, BINDINGS.index({"z": "asia/tokyo"})), ("eval", 1, BINDINGS.index({"z": "ASIA/TOKYO"})),
     ("prog", 0, EXPRS.index("'abc'.matches(z)"), 0), ("eval", 2, BINDINGS.index({"z": "a.c"})), ("eval", 2, BINDINGS.index({"z": "A.C"})), ("eval", 2, BINDINGS.index({"z": "a.c"}))],
    [("env", ENVS.index(("I", None, "none"))), ("prog", 0, EXPRS.index("s.shout()"), 1), ("eval", 0, 15), ("prog", 0, EXPRS.index("size(s)"), 4), ("eval", 1, 15),
     ("env", ENVS.index(("I", "p", "none"))), ("prog", 1, EXPRS.index("size([x, y]) + size(s)"), 0), ("eval", 2, 16), ("prog", 1, EXPRS.index("s.shout()"), 0), ("eval", 3, 15)],
]


def replay(run: common.Run, case: dict, key: str = ""):
    problems = []
    check_history(run, [tuple(o) for o in case["ops"]], lambda k, c, d: problems.append((k, d)))
    return problems


def minimise(ops: List[Tuple], key: str, budget: int = 25) -> List[Tuple]:
    """Greedy one-at-a-time removal of operations that keeps the same root-cause key (Hypothesis' own shrinker is not used
    here: every probe forks a process, and its five-minute budget per failure is too slow)."""
    ops = list(ops)

    def fails(candidate: List[Tuple]) -> bool:
        found: List[str] = []
        probe = common.Run("C05", "quick", 0)
        probe.known_open, probe.findings = {}, []
        try:
            check_history(probe, candidate, lambda k, c, d: found.append(k))
        except Exception:
            return False
        return key in found

    i = len(ops) - 1
    while i >= 0 and budget > 0:
        cand = ops[:i] + ops[i + 1:]
        budget -= 1
        if cand and fails(cand):
            ops = cand
        i -= 1
    return ops


def campaign(run: common.Run) -> None:
    q = run.tier == "quick"

    def body(h):
        def fail(key, case, detail):
            if run.is_known(key) or key in run.session_excluded:
                return run.hyp_fail(key, case, detail)
            small = minimise([tuple(o) for o in case["ops"]], key)
            raise common.Found(key, dict(case, ops=[list(o) for o in small], minimised_from=len(case["ops"])), detail)

        check_history(run, h, fail)

    common.drive(run, body, {"h": history_strategy(30 if q else 60)}, 180 if q else 600, seed_salt=1, shrink=False, reruns=2)


def main(run: common.Run) -> None:
    run.assumptions = [
        "'alone in a fresh process' = a child forked from a zygote that has imported celpy and done nothing else; outcomes cross the process boundary in canonical text form",
        "each history runs in a child forked from the check's own import-only process, so a history is a pure function of its operations (and shrinks / replays deterministically)",
        "environments: {Interpreted, Compiled} x package {none, p, p.q} x annotations {none, plain, dotted}; expressions and bindings from fixed pools",
        "lark's LALR analysis of cel.lark is loaded from a cache file (per tree class) in history children and in the zygote alike: a speed-up of parser construction that shares no parser object",
    ]
    fresh.warm_cache()
    try:
        for p in common.committed_replays(run.pid):
            doc = common.load_replay(p)
            for k, d in replay(run, doc["case"], doc.get("key", "")):
                run.fail(k, doc["case"], d)
            run.event("replayed")
        for h in FIXED_HISTORIES:
            check_history(run, h, run.fail)
        if run.tier == "quick":
            campaign(run)
        else:
            for s in common.run_sharded(run.pid, run.tier, run.seed, _shard, 16, RULE):
                run.merge(s)
        run.extra["alone_evaluations_in_fresh_processes"] = zygote().requests
    finally:
        if _ZYGOTE is not None:
            _ZYGOTE.close()


def _shard(run: common.Run) -> None:
    global _ZYGOTE
    _ZYGOTE = None  # each shard has its own zygote
    try:
        campaign(run)
        run.extra["alone_evaluations_in_fresh_processes"] = zygote().requests
    finally:
        if _ZYGOTE is not None:
            _ZYGOTE.close()
