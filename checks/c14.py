"""C14 — host functions bind uniformly as functions or methods and override built-ins.

Exhaustive product: call shape x template (strict / absorbing contexts, macro body, nested call) x supplying style x callable kind x behaviour
x runner; Hypothesis draws argument values. Oracle: a recording wrapper (arguments received, number of calls) and a small outcome model.
"""

from __future__ import annotations

import itertools
import sys
from typing import Any, Callable, Dict, List, Optional, Tuple

from hypothesis import strategies as st

import celpy
from celpy import celtypes as ct
from celpy.evaluation import CELEvalError

from vf import cel, common, outcome, values

RULE = (
    "call shapes f(), f(a), f(a,b), f(a,b,c), a.f(), a.f(b), a.f(b,c) x 10 templates (bare, arithmetic, ||/&&/?: absorbing contexts, macro body, list element, "
    "argument of another host function) x {list of callables, name->callable dict} x {module-level def made visible to transpiled code, module-level def, "
    "nested def, lambda, callable object} x {returns value, returns CELEvalError, raises ValueError, raises TypeError, raises a subclass of either (JSONDecodeError, UnicodeDecodeError, user class)} x both runners; built-in overrides "
    "(size/contains/startsWith) and their scope; unbound names; Hypothesis draws the argument values. non-trivial = the function is reached at least once, or "
    "an error behaviour sits in an absorbing context. distinct by (template, shape, kind, style, behaviour, runner, args)."
)

CALLS: List[Tuple[str, Tuple]] = []  # filled by the recording wrappers


def _record(name: str, args: Tuple) -> None:
    CALLS.append((name, tuple(outcome.value_outcome(a) for a in args)))


def _behave(behaviour: str, args: Tuple) -> Any:
    if behaviour == "value":
        total = 0
        for a in args:
            total += int(a) if isinstance(a, int) and not isinstance(a, bool) else len(a) if hasattr(a, "__len__") else 1
        return ct.IntType(total % 1000)
    if behaviour == "returns-error":
        return CELEvalError("host says no", ValueError, ("nope",))
    if behaviour == "raises-ValueError":
        raise ValueError("host ValueError")
    if behaviour == "raises-ValueError-subclass":  # what a real host function raises: json.loads / bytes.decode / int() of a user's text
        if len(args) % 2:
            import json

            json.loads("{")  # json.JSONDecodeError, a subclass of ValueError
        b"\xff".decode("utf-8")  # UnicodeDecodeError, a subclass of ValueError
    if behaviour == "raises-TypeError-subclass":
        raise HostTypeError("host TypeError subclass")
    raise TypeError("host TypeError")


class HostTypeError(TypeError):
    pass


# module-level host functions (one per behaviour so that the behaviour is a property of the callable, as in real use)
def hf_value(*args):
    _record("hf", args)
    return _behave("value", args)


def hf_returns_error(*args):
    _record("hf", args)
    return _behave("returns-error", args)


def hf_raises_ValueError(*args):
    _record("hf", args)
    return _behave("raises-ValueError", args)


def hf_raises_TypeError(*args):
    _record("hf", args)
    return _behave("raises-TypeError", args)


def hf_raises_ValueError_subclass(*args):
    _record("hf", args)
    return _behave("raises-ValueError-subclass", args)


def hf_raises_TypeError_subclass(*args):
    _record("hf", args)
    return _behave("raises-TypeError-subclass", args)


def hg(*args):  # the "other" host function, always a value
    _record("hg", args)
    return ct.IntType(100 + len(args))


MODULE_FUNCS = {"value": hf_value, "returns-error": hf_returns_error, "raises-ValueError": hf_raises_ValueError, "raises-TypeError": hf_raises_TypeError,
                "raises-ValueError-subclass": hf_raises_ValueError_subclass, "raises-TypeError-subclass": hf_raises_TypeError_subclass}
BEHAVIOURS = list(MODULE_FUNCS)
KINDS = ["module-def-visible", "module-def", "nested-def", "lambda", "callable-object"]
STYLES = ["list", "dict"]


class CallableObject:
    def __init__(self, name: str, behaviour: str) -> None:
        self.__name__ = name
        self.behaviour = behaviour

    def __call__(self, *args):
        _record("hf", args)
        return _behave(self.behaviour, args)


def make_callable(kind: str, behaviour: str) -> Callable:
    if kind in ("module-def", "module-def-visible"):
        return MODULE_FUNCS[behaviour]
    if kind == "nested-def":
        def hf(*args):
            _record("hf", args)
            return _behave(behaviour, args)

        return hf
    if kind == "lambda":
        return lambda *args: (_record("hf", args), _behave(behaviour, args))[1]
    return CallableObject("hf", behaviour)


def functions_arg(style: str, kind: str, behaviour: str) -> Any:
    f = make_callable(kind, behaviour)
    if style == "dict":
        return {"hf": f, "hg": hg}
    # list style: the name is the callable's __name__
    if kind == "lambda":
        return None  # a lambda has no usable __name__: cannot be supplied as a list element under the name hf
    if kind in ("module-def", "module-def-visible"):
        f = _rename(f, "hf")
    return [f, hg]


def _rename(f: Callable, name: str) -> Callable:
    """module-level function object whose __name__ is `name` (list style binds by __name__)."""
    import types

    g = types.FunctionType(f.__code__, f.__globals__, name, f.__defaults__, f.__closure__)
    g.__qualname__ = f.__qualname__
    g.__module__ = f.__module__
    return g


def set_visibility(visible: bool) -> None:
    """The compiled runner executes transpiled text `module.qualname(...)` in celpy.evaluation's globals. The repository's own
    test makes its module visible there; `module-def-visible` does the same, the other kinds do not."""
    g = celpy.evaluation.result.__globals__
    top = __name__.split(".")[0]
    if visible:
        g[top] = sys.modules[top]
    else:
        g.pop(top, None)


# call shapes: (label, source with {A} {B} {C} argument slots, number of args incl. receiver)
SHAPES = [
    ("f()", "hf()", 0), ("f(a)", "hf({A})", 1), ("f(a,b)", "hf({A}, {B})", 2), ("f(a,b,c)", "hf({A}, {B}, {C})", 3),
    ("a.f()", "({A}).hf()", 1), ("a.f(b)", "({A}).hf({B})", 2), ("a.f(b,c)", "({A}).hf({B}, {C})", 3),
]
# templates: (label, source with {CALL}, expected as a function of the call's outcome v (int or 'ERR'), calls expected ('once'|'any'|'per-element'))
TEMPLATES = [
    ("bare", "{CALL}", lambda v: v, "once"),
    ("plus", "{CALL} + 1", lambda v: v if v == "ERR" else ("int", v[1] + 1), "once"),
    ("or-true", "({CALL} == 1) || true", lambda v: ("bool", True), "once"),
    ("true-or", "true || ({CALL} == 1)", lambda v: ("bool", True), "atmost"),
    ("false-and", "false && ({CALL} == 1)", lambda v: ("bool", False), "atmost"),
    ("and-false", "({CALL} == 1) && false", lambda v: ("bool", False), "once"),
    ("cond-unselected", "true ? 5 : {CALL}", lambda v: ("int", 5), "never"),  # the branch ?: does not select is not a call site reached
    ("cond-selected", "false ? 5 : {CALL}", lambda v: v, "once"),
    ("cond-condition", "({CALL} == -1) ? 1 : 2", lambda v: "ERR" if v == "ERR" else ("int", 2), "once"),
    ("list-element", "[{CALL}, 1]", lambda v: "ERR" if v == "ERR" else ("list", (v, ("int", 1))), "once"),
    ("nested-in-host-call", "hg({CALL})", lambda v: "ERR" if v == "ERR" else ("int", 101), "once"),
    ("nested-as-method-argument", "(1).hg({CALL})", lambda v: "ERR" if v == "ERR" else ("int", 102), "once"),
    ("nested-as-method-receiver", "({CALL}).hg(2)", lambda v: "ERR" if v == "ERR" else ("int", 102), "once"),
    ("nested-in-method-chain", "({CALL}).hg(2).hg(3)", lambda v: "ERR" if v == "ERR" else ("int", 102), "once"),
    ("or-both-error", "({CALL} == 1) || (1 / 0 == 1)", lambda v: ("bool", True) if v == ("int", 1) else "ERR", "once"),
]

ARG_POOL = [("int", 3), ("int", -1), ("string", "ab"), ("list<int>", [1, 2]), ("uint", 7), ("bool", True), ("double", 1.5), ("bytes", b"xy"), ("map<string,int>", {"k": 1})]


def arg_src(kind: str, v: Any, name: str, bound: bool) -> str:
    if bound:
        return name
    from vf import ir

    if kind.startswith("list"):
        return "[" + ", ".join(str(x) for x in v) + "]"
    if kind.startswith("map"):
        return "{" + ", ".join(f"'{k}': {x}" for k, x in v.items()) + "}"
    return ir.lit_text(kind, v)


def model_value(behaviour: str, args: List[Tuple[str, Any]]) -> Any:
    if behaviour != "value":
        return "ERR"
    total = 0
    for kind, v in args:
        total += v if kind in ("int", "uint") else len(v) if hasattr(v, "__len__") else 1
    return ("int", total % 1000)


def observe(o: Tuple) -> Any:
    if o[0] == "value":
        return o[2]
    if o[0] == "error":
        return "ERR"
    return o


def check_case(run: common.Run, tlabel: str, slabel: str, kind: str, style: str, behaviour: str, args: List[Tuple[str, Any]], bound: bool, report) -> None:
    t = next(x for x in TEMPLATES if x[0] == tlabel)
    s = next(x for x in SHAPES if x[0] == slabel)
    fns = functions_arg(style, kind, behaviour)
    if fns is None:
        return
    args = args[: s[2]]
    names = ["va", "vb", "vc"]
    srcs = [arg_src(k, v, names[i], bound) for i, (k, v) in enumerate(args)]
    call = s[1].format(A=srcs[0] if srcs else "", B=srcs[1] if len(srcs) > 1 else "", C=srcs[2] if len(srcs) > 2 else "")
    src = t[1].format(CALL=call)
    binds = {names[i]: values.to_cel(k, v) for i, (k, v) in enumerate(args)} if bound else {}
    if bound:
        # CEL keeps functions and variables in separate name spaces: variables named like the two host functions are bound as well (every other case)
        if (len(repr(args)) + len(tlabel)) % 2 == 0:
            binds = dict(binds, hf=ct.IntType(7), hg=ct.StringType("not the function"))
            run.event("variable-named-like-the-function")
    v = model_value(behaviour, args)
    exp = t[2](v)
    want_args = tuple(outcome.value_outcome(values.to_cel(k, x)) for k, x in args)
    for r in ("I", "C"):
        run.tick()
        set_visibility(kind == "module-def-visible")
        del CALLS[:]
        try:
            o = cel.evaluate(src, binds, r, functions=fns)
        finally:
            set_visibility(False)
        got = observe(o)
        hf_calls = [c for c in CALLS if c[0] == "hf"]
        case = {"template": tlabel, "shape": slabel, "kind": kind, "style": style, "behaviour": behaviour, "args": [list(a) for a in args], "bound": bound, "src": src, "route": r}
        reached = len(hf_calls) > 0
        if reached or (behaviour != "value" and tlabel in ("or-true", "true-or", "false-and", "and-false", "cond-unselected")):
            run.nt((tlabel, slabel, kind, style, behaviour, r, repr(args), bound))
            run.event("nontrivial")
        run.event(f"kind:{kind}")
        tag = f"{r}-{kind}"
        if got != exp:
            mode = "crash-" + str(got[1]) + "-" + str(got[2]) if (isinstance(got, tuple) and got and got[0] == "crash") else ("error-instead-of-value" if got == "ERR" else "value-instead-of-error" if exp == "ERR" else "wrong-value")
            ctx = "strict" if t[3] == "once" and tlabel not in ("or-true", "and-false", "or-both-error") else "absorbing"
            report(f"{tag}-outcome-{ctx}-{behaviour}-{mode}", case, f"{src}: expected {exp} got {str(got)[:150]} (calls {len(hf_calls)})")
            continue
        if t[3] == "once" and len(hf_calls) != 1:
            report(f"{tag}-call-count-{len(hf_calls)}-expected-1", case, f"{src}: host function called {len(hf_calls)} times")
        elif t[3] == "never" and len(hf_calls) != 0:
            report(f"{tag}-unselected-branch-of-conditional-called-{len(hf_calls)}-times", case, f"{src}: host function called {len(hf_calls)} times in the branch ?: did not select")
        elif t[3] == "atmost" and len(hf_calls) > 1:
            report(f"{tag}-call-count-{len(hf_calls)}-expected-at-most-1", case, f"{src}: host function called {len(hf_calls)} times")
        for c in hf_calls:
            if c[1] != want_args:
                report(f"{tag}-arguments-differ", case, f"{src}: received {str(c[1])[:150]} expected {str(want_args)[:150]}")
                break
    run.sample({"src": src, "kind": kind, "style": style, "behaviour": behaviour, "expected": str(exp)[:60]}, bucket=tlabel + kind)


# --- macro body: one call per element ---------------------------------------------------------------


def check_macro(run: common.Run, kind: str, style: str, items: List[int], report) -> None:
    fns = functions_arg(style, kind, "value")
    if fns is None:
        return
    src = "l.map(x, hf(x, 1))"
    for method in (False, True):
        s = "l.map(x, x.hf(1))" if method else src
        for r in ("I", "C"):
            run.tick()
            set_visibility(kind == "module-def-visible")
            del CALLS[:]
            try:
                o = cel.evaluate(s, {"l": values.to_cel("list<int>", items)}, r, functions=fns)
            finally:
                set_visibility(False)
            exp = ("list", tuple(("int", (i + 1) % 1000) for i in items))
            got = observe(o)
            calls = [c for c in CALLS if c[0] == "hf"]
            case = {"macro": True, "kind": kind, "style": style, "items": items, "src": s, "route": r}
            run.nt(("macro", kind, style, r, method, tuple(items)))
            if got != exp:
                mode = "error-instead-of-value" if got == "ERR" else "wrong-value" if not (isinstance(got, tuple) and got[0] == "crash") else f"crash-{got[1]}-{got[2]}"
                report(f"{r}-{kind}-outcome-macro-body-value-{mode}", case, f"{s}: expected {exp} got {str(got)[:120]}")
            elif [c[1][0][2][1] for c in calls] != list(items):
                report(f"{r}-{kind}-macro-calls-differ", case, f"{s}: calls {[c[1][0][2][1] for c in calls]} expected {items}")


# --- overrides ---------------------------------------------------------------------------------------


def my_size(x):
    _record("size", (x,))
    return ct.IntType(-7)


def my_startsWith(s, t):
    _record("startsWith", (s, t))
    return ct.BoolType(s == "ZZ")


def check_overrides(run: common.Run, report) -> None:
    for r in ("I", "C"):
        for style in STYLES:
            for visible in (True, False):
                kind = "module-def-visible" if visible else "module-def"
                fns: Any = {"size": my_size, "startsWith": my_startsWith} if style == "dict" else [_rename(my_size, "size"), _rename(my_startsWith, "startsWith")]
                e = cel.env(r)
                cases = [("size('abc')", ("int", -7)), ("'abc'.size()", ("int", -7)), ("size([1, 2]) + 7", ("int", 0)), ("'abc'.startsWith('a')", ("bool", False)),
                         ("[1].map(x, size('q'))", ("list", (("int", -7),)))]
                for src, exp in cases:
                    run.tick()
                    run.nt(("override", r, style, visible, src))
                    set_visibility(visible)
                    try:
                        o = cel.evaluate(src, {}, r, functions=fns)
                    finally:
                        set_visibility(False)
                    got = observe(o)
                    if got != exp:
                        mode = "builtin-still-used" if got in (("int", 3), ("int", 9), ("bool", True), ("list", (("int", 1),))) else ("error" if got == "ERR" else "other")
                        report(f"{r}-{kind}-override-{mode}", {"override": True, "src": src, "style": style, "visible": visible, "route": r}, f"{src}: expected {exp} got {str(got)[:100]}")
                # scope: a second program without the override, same environment and a new one, sees the built-in
                for same_env in (True, False):
                    run.tick()
                    try:
                        env = cel.env(r)
                        set_visibility(visible)
                        p1 = env.program(env.compile("size('abc')"), functions=fns)
                        env2 = env if same_env else cel.env(r)
                        p2 = env2.program(env2.compile("size('abc')"))
                        v1 = p1.evaluate({}) if (visible or r == "I") else None
                        v2 = p2.evaluate({})
                        v1b = p1.evaluate({}) if (visible or r == "I") else None
                    except Exception as ex:
                        report(f"{r}-{kind}-override-scope-raises-{type(ex).__name__}", {"override_scope": True, "same_env": same_env, "style": style, "visible": visible, "route": r}, str(ex)[:200])
                        continue
                    finally:
                        set_visibility(False)
                    if outcome.canon(v2) != ("int", 3):
                        report(f"{r}-override-leaks-into-other-program", {"override_scope": True, "same_env": same_env, "style": style, "visible": visible, "route": r}, f"size('abc') without override gave {v2!r}")
                    if v1 is not None and (outcome.canon(v1) != ("int", -7) or outcome.canon(v1b) != ("int", -7)):
                        report(f"{r}-{kind}-override-lost", {"override_scope": True, "same_env": same_env, "style": style, "visible": visible, "route": r}, f"overriding program gave {v1!r} then {v1b!r}")


def check_unbound(run: common.Run, report) -> None:
    for r in ("I", "C"):
        for src in ["nofunc()", "nofunc(1)", "nofunc(1, 'a')", "(1).nofunc()", "'a'.nofunc(2)", "[1].map(x, nofunc(x))", "hg(nofunc(1))"]:
            run.tick()
            run.nt(("unbound", r, src))
            o = cel.evaluate(src, {}, r, functions={"hg": hg})
            if o[0] != "error":
                report(f"{r}-unbound-function-not-an-error", {"unbound": True, "src": src, "route": r}, f"{src}: {outcome.short(o)[:120]}")
            run.tick()
            o = cel.evaluate(f"({src} == 1) || true", {}, r, functions={"hg": hg})
            if not (o[0] == "value" and o[2] == ("bool", True)):
                report(f"{r}-unbound-function-not-absorbed", {"unbound": True, "src": f"({src} == 1) || true", "route": r}, f"{outcome.short(o)[:120]}")


def replay(run: common.Run, case: dict, key: str = ""):
    problems = []
    rep = lambda k, c, d: problems.append((k, d))
    if case.get("macro"):
        check_macro(run, case["kind"], case["style"], case["items"], rep)
    elif case.get("override") or case.get("override_scope"):
        check_overrides(run, rep)
    elif case.get("unbound"):
        check_unbound(run, rep)
    else:
        args = [(a[0], a[1]) for a in case["args"]]
        while len(args) < 3:
            args.append(("int", 0))
        check_case(run, case["template"], case["shape"], case["kind"], case["style"], case["behaviour"], args, case["bound"], rep)
    return problems


def exhaustive(run: common.Run, report, arg_sets: List[List[Tuple[str, Any]]]) -> int:
    n = 0
    for (tl, _, _, _), (sl, _, _), kind, style, beh in itertools.product(TEMPLATES, SHAPES, KINDS, STYLES, BEHAVIOURS):
        args = arg_sets[n % len(arg_sets)]
        check_case(run, tl, sl, kind, style, beh, args, bound=(n % 2 == 0), report=report)
        n += 1
    for kind, style in itertools.product(KINDS, STYLES):
        check_macro(run, kind, style, [3, 1, 2], report)
        check_macro(run, kind, style, [], report)
    return n


def main(run: common.Run) -> None:
    run.assumptions = [
        "'once per call site reached': exactly one call for a site in a strictly evaluated position; at most one for a site in an operand that ||, && or ?: need not evaluate",
        "module-def-visible = the check makes its own module visible in celpy.evaluation's globals (what the repository's own transpiler test does) so that compiled code can name the function",
        "a lambda cannot be supplied in list style (it has no usable __name__): that combination is skipped",
    ]
    for p in common.committed_replays(run.pid):
        doc = common.load_replay(p)
        for k, d in replay(run, doc["case"], doc.get("key", "")):
            run.fail(k, doc["case"], d)
        run.event("replayed")
    check_overrides(run, run.fail)
    check_unbound(run, run.fail)
    base_sets = [
        [("int", 3), ("string", "ab"), ("list<int>", [1, 2])], [("string", "q"), ("int", -1), ("bool", True)], [("list<int>", []), ("uint", 7), ("double", 1.5)],
        [("map<string,int>", {"k": 1}), ("bytes", b"xy"), ("int", 0)], [("int", 9223372036854775807), ("int", -9223372036854775808), ("string", "")],
    ]
    n = exhaustive(run, run.fail, base_sets)
    run.extra["exhaustive_product_cases"] = n

    # Hypothesis: argument values (and which template/shape/kind they meet)
    def body(t, s, kind, style, beh, args, bound):
        check_case(run, t, s, kind, style, beh, args, bound, run.hyp_fail)

    arg = st.sampled_from(ARG_POOL) | st.tuples(st.just("int"), values.int64()) | st.tuples(st.just("string"), values.text(5)) | st.tuples(st.just("list<int>"), st.lists(st.integers(-3, 3), max_size=3))
    strat = dict(t=st.sampled_from([x[0] for x in TEMPLATES]), s=st.sampled_from([x[0] for x in SHAPES]), kind=st.sampled_from(KINDS), style=st.sampled_from(STYLES),
                 beh=st.sampled_from(BEHAVIOURS), args=st.lists(arg, min_size=3, max_size=3), bound=st.booleans())
    if run.tier == "quick":
        common.drive(run, body, strat, 600, seed_salt=1)
    else:
        for s in common.run_sharded(run.pid, run.tier, run.seed, _shard, 16, RULE):
            run.merge(s)


def _shard(run: common.Run) -> None:
    def body(t, s, kind, style, beh, args, bound):
        check_case(run, t, s, kind, style, beh, args, bound, run.hyp_fail)

    arg = st.sampled_from(ARG_POOL) | st.tuples(st.just("int"), values.int64()) | st.tuples(st.just("string"), values.text(5)) | st.tuples(st.just("list<int>"), st.lists(st.integers(-3, 3), max_size=3))
    strat = dict(t=st.sampled_from([x[0] for x in TEMPLATES]), s=st.sampled_from([x[0] for x in SHAPES]), kind=st.sampled_from(KINDS), style=st.sampled_from(STYLES),
                 beh=st.sampled_from(BEHAVIOURS), args=st.lists(arg, min_size=3, max_size=3), bound=st.booleans())
    common.drive(run, body, strat, 4000, seed_salt=1)
