"""C01 — numeric operators are exact: int64/uint64 overflow-checked, double IEEE-754.

Oracle: bigint arithmetic + range test for int/uint; exact rational arithmetic rounded once to
binary64 (plus the IEEE table for zeros/infinities) for doubles. Routes: celtypes dunders direct and
reflected, parsed `x op y` with bound operands, and parsed literals, under both runners.
"""

from __future__ import annotations

import itertools
import math
import operator
from fractions import Fraction
from typing import Any, Optional, Tuple

from hypothesis import strategies as st

from celpy import celtypes as ct
from celpy.evaluation import CELEvalError

from vf import cel, common, outcome, values

RULE = (
    "pairs (a,b) of int64/uint64/double drawn from boundary tables, 2^k(+-1) and uniform ranges, for + - * / % and unary -; "
    "each through 4 routes (dunder, reflected dunder, parsed with bindings, parsed literals) x 2 runners. non-trivial = exact "
    "integer result within 2 of a range bound or out of range, zero divisor, / or % with a negative operand, negating MIN or a "
    "uint; double result that is +-0, +-inf, NaN, subnormal, or inexact (needed rounding). distinct by (type, op, a, b)."
)

API_ERRORS = (ValueError, ZeroDivisionError, TypeError, OverflowError)
ERR = "ERR"

OPS = {"+": operator.add, "-": operator.sub, "*": operator.mul, "/": operator.truediv, "%": operator.mod}


# ---------------------------------------------------------------------------
# Reference model


def ref_int(op: str, a: int, b: Optional[int], lo: int, hi: int) -> Any:
    if op == "neg":
        if lo == 0:
            return ERR  # negating a uint
        r = -a
    elif op == "+":
        r = a + b
    elif op == "-":
        r = a - b
    elif op == "*":
        r = a * b
    elif op == "/":
        if b == 0:
            return ERR
        q = abs(a) // abs(b)
        r = q if (a < 0) == (b < 0) else -q
    elif op == "%":
        if b == 0:
            return ERR
        q = abs(a) // abs(b)
        q = q if (a < 0) == (b < 0) else -q
        r = a - b * q
    else:  # pragma: no cover
        raise ValueError(op)
    return r if lo <= r <= hi else ERR


def _sign(x: float) -> int:
    return -1 if math.copysign(1.0, x) < 0 else 1


def _round(fr: Fraction, zero_sign: int) -> float:
    if fr == 0:
        return -0.0 if zero_sign < 0 else 0.0
    try:
        r = fr.numerator / fr.denominator  # correctly rounded int/int true division
    except OverflowError:
        return math.inf if fr > 0 else -math.inf
    return r


def ref_double(op: str, a: float, b: Optional[float]) -> float:
    """IEEE-754 binary64 result computed without float arithmetic on the operands."""
    if op == "neg":
        if a != a:
            return a
        bits = outcome.dbl(a)
        flipped = int(bits, 16) ^ (1 << 63)
        import struct

        return struct.unpack(">d", flipped.to_bytes(8, "big"))[0]
    ainf, binf = math.isinf(a), math.isinf(b)
    sa, sb = _sign(a), _sign(b)
    if op == "-":
        return ref_double("+", a, ref_double("neg", b, None))
    if op == "+":
        if ainf and binf:
            return a if sa == sb else math.nan
        if ainf:
            return a
        if binf:
            return b
        if a == 0 and b == 0:
            return -0.0 if (sa < 0 and sb < 0) else 0.0
        fr = Fraction(a) + Fraction(b)
        return _round(fr, 1)  # exact zero sum of non-zero operands is +0 in round-to-nearest
    if op == "*":
        s = sa * sb
        if ainf or binf:
            if (a == 0) or (b == 0):
                return math.nan
            return math.inf if s > 0 else -math.inf
        if a == 0 or b == 0:
            return -0.0 if s < 0 else 0.0
        r = _round(Fraction(a) * Fraction(b), s)
        if r == 0:
            return -0.0 if s < 0 else 0.0
        return r
    if op == "/":
        s = sa * sb
        if ainf and binf:
            return math.nan
        if ainf:
            return math.inf if s > 0 else -math.inf
        if binf:
            return -0.0 if s < 0 else 0.0
        if b == 0:
            if a == 0:
                return math.nan
            return math.inf if s > 0 else -math.inf
        if a == 0:
            return -0.0 if s < 0 else 0.0
        r = _round(Fraction(a) / Fraction(b), s)
        if r == 0:
            return -0.0 if s < 0 else 0.0
        return r
    raise ValueError(op)  # pragma: no cover


def expected(kind: str, op: str, a: Any, b: Any) -> Any:
    if kind == "int":
        return ref_int(op, a, b, values.I_MIN, values.I_MAX)
    if kind == "uint":
        return ref_int(op, a, b, 0, values.U_MAX)
    return ref_double(op, a, b)


def nontrivial(kind: str, op: str, a: Any, b: Any, exp: Any) -> bool:
    if kind in ("int", "uint"):
        lo, hi = (values.I_MIN, values.I_MAX) if kind == "int" else (0, values.U_MAX)
        if exp == ERR:
            return True
        if exp - lo <= 2 or hi - exp <= 2:
            return True
        if op in "/%" and (a < 0 or (b is not None and b < 0)):
            return True
        return False
    if exp != exp or math.isinf(exp) or exp == 0:
        return True
    if abs(exp) < 2.2250738585072014e-308:
        return True
    if op == "neg":
        return False
    try:
        fa, fb = Fraction(a), Fraction(b)
        exact = {"+": fa + fb, "-": fa - fb, "*": fa * fb}.get(op) if op != "/" else (fa / fb if fb else None)
        return exact is not None and Fraction(exp) != exact
    except (OverflowError, ValueError, ZeroDivisionError):
        return True


# ---------------------------------------------------------------------------
# Observations


def obs_canon(kind: str, v: Any) -> Any:
    """Observed value -> comparable payload (class ignored: C13 owns classes), or ('bad', ...)."""
    k = outcome.kind_of(v)
    if kind in ("int", "uint"):
        if k not in ("int", "uint"):
            return ("bad-kind", k, repr(v)[:80])
        return int(v)
    if k != "double":
        return ("bad-kind", k, repr(v)[:80])
    return ("d", outcome.dbl(v))


def exp_canon(kind: str, e: Any) -> Any:
    if e == ERR and isinstance(e, str):
        return ERR
    if kind in ("int", "uint"):
        return int(e)
    return ("d", outcome.dbl(e))


def wrap(kind: str, v: Any) -> Any:
    return values.to_cel(kind, v)


def native(kind: str, v: Any) -> Any:
    return float(v) if kind == "double" else int(v)


def api_call(fn, *args) -> Any:
    try:
        return ("v", fn(*args))
    except API_ERRORS:
        return ERR
    except Exception as ex:  # anything else is a crash
        return ("crash", type(ex).__name__)


def literal(kind: str, v: Any) -> Optional[str]:
    if kind == "int":
        return str(v)
    if kind == "uint":
        return f"{v}u"
    if math.isinf(v) or v != v:
        return None
    r = repr(float(v))
    if "e" not in r and "." not in r:  # pragma: no cover
        r += ".0"
    return r


_PROGRAMS: dict = {}


def program(runner: str, src: str):
    key = (runner, src)
    p = _PROGRAMS.get(key)
    if p is None:
        e = cel.env(runner)
        p = e.program(e.compile(src))
        _PROGRAMS[key] = p
    return p


def run_program(runner: str, src: str, bindings: dict) -> Any:
    try:
        p = program(runner, src)
    except Exception as ex:
        return ("crash", type(ex).__name__ + "@program")
    try:
        return ("v", p.evaluate(bindings))
    except CELEvalError:
        return ERR
    except Exception as ex:
        return ("crash", type(ex).__name__)


def run_source(runner: str, src: str) -> Any:
    o, raw = cel.evaluate(src, {}, runner, want_value=True)
    if o[0] == "value":
        return ("v", raw)
    if o[0] == "error":
        return ERR
    return ("crash", f"{o[0]}:{o[1]}")


def classify(kind: str, op: str, route: str, a: Any, b: Any, exp: Any, got: Any) -> str:
    if got != ERR and got[0] == "crash":
        return f"{kind}{op}-{route}-crash-{got[1]}"
    if exp == ERR and isinstance(exp, str):
        return f"{kind}{op}-{route}-value-instead-of-error"
    if got == ERR:
        return f"{kind}{op}-{route}-error-instead-of-value"
    if kind == "double" and op == "/" and b == 0 and outcome.kind_of(got[1]) == "double" and got[1] == math.inf:
        return "double-div-by-zero-always-plus-inf"
    return f"{kind}{op}-{route}-wrong-value"


def check_case(run: common.Run, kind: str, op: str, a: Any, b: Any, routes: str, report) -> None:
    """Evaluate one (type, op, a, b) through the selected routes; `report(key, case, detail)` on mismatch."""
    exp = expected(kind, op, a, b)
    expc = exp_canon(kind, exp)
    case = {"type": kind, "op": op, "a": a, "b": b}
    run.tick()
    if nontrivial(kind, op, a, b, exp):
        run.nt((kind, op, repr(a), repr(b)))
        run.event("nontrivial")
    run.event(f"{kind}:{op}")
    run.event("expected-error" if expc == ERR else "expected-value")
    observations = []
    try:
        A, B = wrap(kind, a), (wrap(kind, b) if b is not None else None)
    except Exception as ex:  # an in-range value that cannot even be constructed
        report(f"{kind}-construct-in-range-value-fails", case, f"{type(ex).__name__}: {ex}")
        return
    if "a" in routes:
        if op == "neg":
            observations.append(("dunder", api_call(operator.neg, A)))
        else:
            observations.append(("dunder", api_call(OPS[op], A, B)))
    if "b" in routes and op != "neg":
        observations.append(("reflected", api_call(OPS[op], native(kind, a), B)))
        observations.append(("native-right", api_call(OPS[op], A, native(kind, b))))
    if "c" in routes:
        src = "-x" if op == "neg" else f"x {op} y"
        binds = {"x": A} if op == "neg" else {"x": A, "y": B}
        for r in "IC":
            observations.append((f"bound-{r}", run_program(r, src, binds)))
    composed = []
    if "c" in routes:
        # the operator applied twice (stacked / chained without parentheses, and parenthesised): expected by composing the exact model,
        # so an operator pair that is "simplified" away (- - x, x - y + y ...) shows
        def twice(first: Any) -> Any:
            if first == ERR:
                return ERR
            return expected(kind, op, first, None if op == "neg" else b)

        exp2 = exp_canon(kind, twice(exp)) if not (kind == "double" and exp != ERR and isinstance(exp, float) and exp != exp) else None
        if exp2 is not None:
            srcs = ["- - x", "-(-x)", "-(-(x))"] if op == "neg" else [f"x {op} y {op} y", f"(x {op} y) {op} y"]
            binds = {"x": A} if op == "neg" else {"x": A, "y": B}
            for src in srcs:
                for r in "IC":
                    composed.append((f"twice[{'stacked' if '(' not in src else 'parenthesised'}]-{r}", src, run_program(r, src, binds), exp2))
    for route, src, got, want in composed:
        gotc = got if got == ERR or got[0] == "crash" else obs_canon(kind, got[1])
        if gotc != want:
            report(f"{kind}-{op}-applied-twice-{route}-{'value-instead-of-error' if want == ERR else 'error-instead-of-value' if gotc == ERR else 'wrong-value'}", dict(case, route=route, src=src),
                   f"{src}: expected {want!r} got {gotc!r}")
    if "d" in routes:
        la, lb = literal(kind, a), (literal(kind, b) if b is not None else "")
        if la is not None and lb is not None:
            src = f"-({la})" if op == "neg" else f"{la} {op} {lb}"
            for r in "IC":
                observations.append((f"literal-{r}", run_source(r, src)))
            case = dict(case, literal_src=src)
    for route, got in observations:
        gotc = got if got == ERR or got[0] == "crash" else obs_canon(kind, got[1])
        if gotc != expc:
            key = classify(kind, op, route, a, b, exp, got)
            report(key, dict(case, route=route), f"expected {expc!r} got {gotc!r}")
    run.sample({"case": case, "expected": repr(expc)}, bucket=f"{kind}{op}")


KIND_STRAT = {"int": values.int64, "uint": values.uint64, "double": values.double_with_inf}
KIND_OPS = {"int": ["+", "-", "*", "/", "%", "neg"], "uint": ["+", "-", "*", "/", "%", "neg"], "double": ["+", "-", "*", "/", "neg"]}


def replay(run: common.Run, case: dict, key: str = ""):
    problems = []
    check_case(run, case["type"], case["op"], case["a"], case.get("b"), "abcd", lambda k, c, d: problems.append((k, d)))
    return problems


def grid(run: common.Run, routes: str) -> None:
    """Exhaustive boundary grid B x B for every (type, op)."""
    tables = {"int": values.INT_B, "uint": values.UINT_B,
              "double": [0.0, -0.0, 1.0, -1.0, 0.5, 3.0, -3.0, 0.1, values.DBL_MAX, -values.DBL_MAX, 5e-324, -5e-324,
                         2.2250738585072014e-308, math.inf, -math.inf, 1e308, float(2**53), 1e-300]}
    for kind, tab in tables.items():
        for op in KIND_OPS[kind]:
            if op == "neg":
                for a in tab:
                    check_case(run, kind, op, a, None, routes, run.fail)
            else:
                for a, b in itertools.product(tab, tab):
                    check_case(run, kind, op, a, b, routes, run.fail)


def campaign(run: common.Run) -> None:
    quick = run.tier == "quick"
    n_api = 1500 if quick else 20000
    n_parsed = 150 if quick else 2500
    for kind in ("int", "uint", "double"):
        for op in KIND_OPS[kind]:
            strat = KIND_STRAT[kind]()
            salt = hash_salt(kind, op)

            body_api = make_body(run, kind, op, "ab")
            body_parsed = make_body(run, kind, op, "cd")

            common.drive(run, body_api, {"a": strat, "b": strat}, n_api, seed_salt=salt)
            common.drive(run, body_parsed, {"a": strat, "b": strat}, n_parsed, seed_salt=salt + 1)


def make_body(run, kind, op, routes):
    def body(a, b):
        check_case(run, kind, op, a, None if op == "neg" else b, routes, run.hyp_fail)

    return body


def hash_salt(*parts: str) -> int:
    import zlib

    return zlib.crc32("|".join(parts).encode()) & 0xFFFF


def main(run: common.Run) -> None:
    run.assumptions = [
        "CPython int/int true division is correctly rounded (used to round exact rationals to binary64 in the oracle)",
        "'signals an evaluation error' = ValueError/ZeroDivisionError/TypeError/OverflowError at the celtypes API, CELEvalError at the runner API",
        "NaN operands are outside the quantifier and not generated",
    ]
    for p in common.committed_replays(run.pid):
        doc = common.load_replay(p)
        check_case(run, doc["case"]["type"], doc["case"]["op"], doc["case"]["a"], doc["case"].get("b"), "abcd", run.fail)
        run.event("replayed")
    # exhaustive boundary grid: API routes always, parsed routes too (cheap through cached programs + literals)
    grid(run, "abcd" if run.tier == "thorough" else "abc")
    run.extra["boundary_grid_exhaustive"] = True
    if run.tier == "quick":
        campaign(run)
    else:
        for st_ in common.run_sharded(run.pid, run.tier, run.seed, campaign, 16, RULE):
            run.merge(st_)
