"""C19 — translated value clauses keep their operator, operands and literals.

(1) every op x value kind x value_type x resource on both sides of the comparison boundary: the clause's CEL, evaluated on the resource with
    c7nlib.FUNCTIONS, gives the decision of the named relation applied directly in Python;
(2) every string (quotes, backslashes, control characters, non-ASCII) as value, key, tag name and value_from URL survives as a CEL literal;
(3) day / second counts become duration literals of the same length;
(4) every (rewriter, resource type) entry of the translator's tables (read out of the functions' source at run time) is syntactically valid CEL.
"""

from __future__ import annotations

import ast
import contextlib
import fnmatch
import inspect
import io
import itertools
import textwrap
from fractions import Fraction
from typing import Any, Dict, List, Optional, Tuple

from hypothesis import strategies as st

import celpy
import celpy.c7nlib as c7nlib
from celpy import celtypes as ct
from celpy.adapter import json_to_cel

from xlate.c7n_to_cel import C7N_Rewriter

from vf import calendar, cel, common, outcome, values

RULE = (
    "ops eq/equal ne/not-equal gt/greater-than ge/gte lt/less-than le/lte in ni/not-in contains glob intersect difference present/absent x value kinds "
    "(string, int, bool, list) x value_type {none, size, integer, normalize, swap, unique_size, age, expiration} x resources at v-1, v, v+1 / member, non-member / "
    "prefix, non-prefix / present, absent, empty; keys plain, dotted, tag:NAME, length(k); all Unicode strings as values, keys, tag names and URLs; day counts "
    "k/1440 and second counts; every table entry of the rewriters. non-trivial = resource value within distance 1 of the relation's boundary, or the string has a "
    "character CEL escapes treat specially. distinct by (clause, resource)."
)

NOW_US = 1623785400 * 10**6  # 2021-06-15T19:30:00Z
NOW = ct.TimestampType(values.us_to_datetime(NOW_US))
FUNCS = dict(c7nlib.FUNCTIONS)

REL = {
    "eq": lambda r, v: r == v, "equal": lambda r, v: r == v, "ne": lambda r, v: r != v, "not-equal": lambda r, v: r != v,
    "gt": lambda r, v: r > v, "greater-than": lambda r, v: r > v, "ge": lambda r, v: r >= v, "gte": lambda r, v: r >= v,
    "lt": lambda r, v: r < v, "less-than": lambda r, v: r < v, "le": lambda r, v: r <= v, "lte": lambda r, v: r <= v,
    "in": lambda r, v: r in v, "ni": lambda r, v: r not in v, "not-in": lambda r, v: r not in v,
    "contains": lambda r, v: v in r, "glob": lambda r, v: fnmatch.fnmatchcase(r, v),
    "intersect": lambda r, v: bool(set(r) & set(v)), "difference": lambda r, v: bool(set(r) - set(v)),
}
ORDER_OPS = ["eq", "equal", "ne", "not-equal", "gt", "greater-than", "ge", "gte", "lt", "less-than", "le", "lte"]


def translate(clause: Dict[str, Any], resource_type: str = "ec2") -> str:
    with contextlib.redirect_stdout(io.StringIO()):
        return C7N_Rewriter.primitive(resource_type, clause)


def decide(text: str, resource: Any, functions: Any = None) -> Any:
    """True / False / ('error',) / ('noparse', ..) / ..."""
    try:
        e = cel.env("I")
        p = e.program(e.compile(text), functions=functions or FUNCS)
    except Exception as ex:
        return ("noparse", type(ex).__name__)
    try:
        v = p.evaluate({"resource": json_to_cel(resource), "now": NOW})
    except celpy.CELEvalError:
        return ("error",)
    except Exception as ex:
        return ("crash", type(ex).__name__)
    if isinstance(v, (ct.BoolType, bool)):
        return bool(v)
    return ("nonbool", repr(v)[:60])


def check_clause(run: common.Run, clause: Dict[str, Any], resource: Any, want: bool, what: str, near: bool, report) -> None:
    run.tick()
    case = {"clause": clause, "resource": resource, "want": want}
    try:
        text = translate(clause)
    except Exception as ex:
        report(f"translate-raises-{type(ex).__name__}[{what}]", case, f"{type(ex).__name__}: {ex}")
        return
    case["cel"] = text
    if near:
        run.nt((repr(sorted(clause.items(), key=str)), repr(resource)))
        run.event("nontrivial")
    run.event("op:" + str(clause.get("op", clause.get("value"))))
    if clause.get("value_type"):
        run.event("value_type:" + clause["value_type"])
    got = decide(text, resource)
    if got is not want:
        mode = "does-not-parse" if isinstance(got, tuple) and got[0] == "noparse" else "wrong-decision" if isinstance(got, bool) else got[0]
        report(f"clause[{what}]-{mode}", case, f"{clause} -> {text!r} on {resource}: expected {want} got {got}")
    run.sample({"clause": clause, "cel": text, "resource": resource, "decision": want}, bucket=what[:14])


# --- (1) operators x kinds x transforms ------------------------------------------------------------------------


def op_cases(v_int: int, s: str, lst: List[Any]) -> List[Tuple[Dict[str, Any], Any, bool, str, bool]]:
    """(clause, resource, expected decision, label, near-boundary)"""
    out = []
    for op in ORDER_OPS:
        for r in (v_int - 1, v_int, v_int + 1):
            out.append(({"type": "value", "key": "k", "op": op, "value": v_int}, {"k": r}, REL[op](r, v_int), f"{op}-int", True))
        for r in (s, s + "a", s[:-1] if s else "a"):
            out.append(({"type": "value", "key": "k", "op": op, "value": s}, {"k": r}, REL[op](r, s), f"{op}-string", True))
    for op in ("eq", "ne"):
        for v in (True, False, "true", "false"):
            vb = v in (True, "true")
            for r in (True, False):
                out.append(({"type": "value", "key": "k", "op": op, "value": v}, {"k": r}, REL[op](r, vb), f"{op}-bool", True))
    for op in ("in", "ni", "not-in"):
        for r in (lst + ["zz"]):
            out.append(({"type": "value", "key": "k", "op": op, "value": lst}, {"k": r}, REL[op](r, lst), f"{op}-list", True))
        # a string value: Custodian's `in` is Python's, so against a string it is the substring relation
        joined = s + "," + s[::-1] + "q"
        for r in (s, s[::-1] + "q", s[:1], s[:2], joined, joined[1:-1], "zz", s + "zz", ",", ""):
            out.append(({"type": "value", "key": "k", "op": op, "value": joined}, {"k": r}, REL[op](r, joined), f"{op}-string", True))
    for r in (lst, lst[:1], [], ["zz"], lst + ["zz"]):
        for member in (lst[0] if lst else "zz", "zz"):
            out.append(({"type": "value", "key": "k", "op": "contains", "value": member}, {"k": r}, REL["contains"](r, member), "contains-list", True))
        for op in ("intersect", "difference"):
            for v in (lst, ["zz"], lst[:1] + ["zz"], []):
                out.append(({"type": "value", "key": "k", "op": op, "value": v}, {"k": r}, REL[op](r, v), f"{op}-list", True))
    for pat, texts in (("a*", ["a", "ab", "ba", ""]), ("?b", ["ab", "b", "abb"]), ("[ab]c", ["ac", "bc", "cc"]), (s + "*", [s, s + "x", "x" + s])):
        if any(c in pat for c in "\\\n\"") or any(c in s for c in "[]*?!"):
            continue
        for r in texts:
            out.append(({"type": "value", "key": "k", "op": "glob", "value": pat}, {"k": r}, REL["glob"](r, pat), "glob", True))
    # present / absent / not-null / empty  (c7n: absent <=> r is None; present <=> r is not None; not-null <=> truthy; empty <=> falsy)
    for r, label in (("x", "value"), (None, "null"), ("", "empty"), ([], "emptylist"), (0, "zero")):
        out.append(({"type": "value", "key": "k", "value": "present"}, {"k": r}, bool(r), "present", True))
        out.append(({"type": "value", "key": "k", "value": "not-null"}, {"k": r}, bool(r), "not-null", True))
        out.append(({"type": "value", "key": "k", "value": "absent"}, {"k": r}, not bool(r), "absent", True))
        out.append(({"type": "value", "key": "k", "value": "empty"}, {"k": r}, not bool(r), "empty", True))
    # value_type transforms
    for op in ("eq", "gt", "lt", "ge", "le", "ne", "lte", "gte"):
        for n in (len(lst) - 1, len(lst), len(lst) + 1):
            out.append(({"type": "value", "key": "k", "op": op, "value": n, "value_type": "size"}, {"k": lst}, REL[op](len(lst), n), f"size-{op}", True))
            dup = lst + lst[:1]
            out.append(({"type": "value", "key": "k", "op": op, "value": n, "value_type": "unique_size"}, {"k": dup}, REL[op](len(set(dup)), n), f"unique_size-{op}", True))
        for r in (v_int - 1, v_int, v_int + 1):
            out.append(({"type": "value", "key": "k", "op": op, "value": v_int, "value_type": "integer"}, {"k": str(r)}, REL[op](r, v_int), f"integer-{op}", True))
    norm = s.strip().lower()
    # (the lower-case texts true / false are the translator's documented shorthand for a boolean test, covered by the eq/ne-bool cases above)
    for r in (norm, " " + norm.upper() + " ", norm + "x") if norm not in ("true", "false") else ():
        for op in ("eq", "ne"):
            out.append(({"type": "value", "key": "k", "op": op, "value": norm, "value_type": "normalize"}, {"k": r}, REL[op](r.strip().lower(), norm), f"normalize-{op}", True))
    for r in (lst, ["zz"], []):
        member = lst[0] if lst else "zz"
        out.append(({"type": "value", "key": "k", "op": "in", "value": member, "value_type": "swap"}, {"k": r}, member in r, "swap-in", True))
        out.append(({"type": "value", "key": "k", "op": "ni", "value": member, "value_type": "swap"}, {"k": r}, member not in r, "swap-ni", True))
    return out


def time_cases(days: int) -> List[Tuple[Dict[str, Any], Any, bool, str, bool]]:
    out = []
    day_us = 86400 * 10**6
    for op in ("gt", "ge", "lt", "le", "greater-than", "less-than", "gte", "lte"):
        for delta in (-1, 0, 1):
            # age: (now - r) OP days
            r_us = NOW_US - days * day_us + delta * 10**6
            age = NOW_US - r_us
            out.append(({"type": "value", "key": "t", "op": op, "value": days, "value_type": "age"}, {"t": calendar.rfc3339(r_us)}, REL[op](age, days * day_us), f"age-{op}", True))
            # expiration: (r - now) OP days
            r_us = NOW_US + days * day_us + delta * 10**6
            left = r_us - NOW_US
            out.append(({"type": "value", "key": "t", "op": op, "value": days, "value_type": "expiration"}, {"t": calendar.rfc3339(r_us)}, REL[op](left, days * day_us), f"expiration-{op}", True))
    return out


def key_cases(name: str, s: str) -> List[Tuple[Dict[str, Any], Any, bool, str, bool]]:
    out = []
    for r, want in ((s, True), (s + "x", False)):
        out.append(({"type": "value", "key": "a.b", "op": "eq", "value": s}, {"a": {"b": r, "c": "no"}, "b": "no"}, want, "key-dotted", False))
        out.append(({"type": "value", "key": "a.b.c", "op": "eq", "value": s}, {"a": {"b": {"c": r}}}, want, "key-dotted3", False))
        out.append(({"type": "value", "key": "a.b.c.d", "op": "eq", "value": s}, {"a": {"b": {"c": {"d": r, "e": "no"}, "d": "no"}}}, want, "key-dotted4", False))
        out.append(({"type": "value", "key": "a.b.c.d.e", "op": "eq", "value": s}, {"a": {"b": {"c": {"d": {"e": r}}}}}, want, "key-dotted5", False))
        out.append(({"type": "value", "key": f"tag:{name}", "op": "eq", "value": s}, {"Tags": [{"Key": "other", "Value": "no"}, {"Key": name, "Value": r}]}, want, "key-tag", False))
        out.append(({f"tag:{name}": "present", "type": "value"} if False else {"type": "value", "key": f"tag:{name}", "value": "present"}, {"Tags": [{"Key": name, "Value": r}]}, True, "key-tag-present", False))
    for n in (0, 1, 2):
        out.append(({"type": "value", "key": "length(k)", "op": "eq", "value": 1}, {"k": ["x"] * n}, n == 1, "key-length", True))
        out.append(({"type": "value", "key": "length(k)", "op": "gt", "value": 1}, {"k": ["x"] * n}, n > 1, "key-length", True))
    return out


# --- (2) string literals ------------------------------------------------------------------------------------


def special(s: str) -> bool:
    return any(c in "\"'\\\n\r\t\0" or ord(c) > 126 or ord(c) < 32 for c in s)


def check_string_literal(run: common.Run, s: str, where: str, report) -> None:
    """The string s, used as value / key / tag name / URL, must come out of the CEL literal exactly."""
    if where == "value" and s in ("true", "false"):
        run.event("skipped-boolean-shorthand")  # these two lower-case texts are the translator's documented spelling of a boolean test, not string literals
        return
    run.tick()
    if special(s):
        run.nt((where, s))
        run.event("nontrivial")
    run.event("literal-in:" + where)
    case = {"literal": s, "where": where}
    cls = "quote" if '"' in s else "backslash" if "\\" in s else "newline" if ("\n" in s or "\r" in s) else "other-control" if any(ord(c) < 32 for c in s) else "plain"
    try:
        if where == "value":
            clause = {"type": "value", "key": "k", "op": "eq", "value": s}
            pairs = [({"k": s}, True), ({"k": s + "x"}, False), ({"k": "x" + s}, False)]
        elif where == "key":
            clause = {"type": "value", "key": s, "op": "eq", "value": 1}
            pairs = [({s: 1, s + "_": 2}, True), ({s: 2, s + "_": 1}, False)]
        elif where == "tag":
            clause = {"type": "value", "key": "tag:" + s, "op": "eq", "value": "v"}
            pairs = [({"Tags": [{"Key": s + "_", "Value": "no"}, {"Key": s, "Value": "v"}]}, True), ({"Tags": [{"Key": s, "Value": "no"}]}, False)]
        elif where == "list-member":
            clause = {"type": "value", "key": "k", "op": "in", "value": [s, "other"]}
            pairs = [({"k": s}, True), ({"k": s + "x"}, False)]
        else:  # url
            seen: List[Any] = []

            def value_from(url: Any, fmt: Any = None) -> Any:
                seen.append((str(url), None if fmt is None else str(fmt)))
                return ct.ListType([ct.StringType("member")])

            clause = {"type": "value", "key": "k", "op": "in", "value_from": {"url": s, "format": "txt"}}
            text = translate(clause)
            got = decide(text, {"k": "member"}, dict(FUNCS, value_from=value_from))
            if got is not True or seen != [(s, "txt")]:
                mode = "does-not-parse" if isinstance(got, tuple) and got[0] == "noparse" else "wrong-url"
                report(f"string-literal[url]-{cls}-{mode}", dict(case, cel=text), f"value_from url {s!r} -> {text!r}: decision {got}, value_from received {seen}")
            return
        text = translate(clause)
    except Exception as ex:
        report(f"string-literal[{where}]-{cls}-translate-raises-{type(ex).__name__}", case, f"{type(ex).__name__}: {ex}")
        return
    for resource, want in pairs:
        got = decide(text, resource)
        if got is not want:
            mode = "does-not-parse" if isinstance(got, tuple) and got[0] == "noparse" else "wrong-decision" if isinstance(got, bool) else got[0]
            report(f"string-literal[{where}]-{cls}-{mode}", dict(case, cel=text, resource=resource), f"{where} {s!r} -> {text!r} on {resource}: expected {want} got {got}")
            return
    run.sample({"where": where, "string": s, "cel": text}, bucket="lit" + where)


# --- (3) durations -------------------------------------------------------------------------------------------


def check_duration(run: common.Run, kind: str, amount: Fraction, report) -> None:
    """age_to_duration(days) / seconds_to_duration(seconds) -> duration(<literal>) of the same length. `amount` is exact."""
    run.tick()
    arg: Any = float(amount) if amount.denominator != 1 else int(amount)
    want_s = amount * 86400 if kind == "days" else amount
    if want_s.denominator != 1 or want_s > 315_576_000_000:
        return  # not a whole number of seconds, or beyond CEL's duration range
    lit = C7N_Rewriter.age_to_duration(arg) if kind == "days" else C7N_Rewriter.seconds_to_duration(arg)
    if amount == 0 or amount.denominator != 1 or want_s >= 86400:
        run.nt((kind, str(amount)))
    o = cel.evaluate(f"duration({lit})", {}, "I")
    want = ("duration", int(want_s) * 10**6)
    got = o[2] if o[0] == "value" else o
    if got != want:
        z = "zero" if want_s == 0 else "fraction" if amount.denominator != 1 else "whole"
        report(f"duration-literal-{kind}-{z}-" + ("error" if o[0] != "value" else "wrong-length"), {"duration_kind": kind, "amount": str(amount), "literal": lit}, f"{kind}={amount} -> duration({lit}): expected {want} got {got}")
    run.sample({"kind": kind, "amount": str(amount), "literal": lit}, bucket="dur")


# --- (4) the tables --------------------------------------------------------------------------------------------

TABLE_FUNCS = {
    "type_age_rewrite": ("attribute_map", lambda rt: {"type": "age", "days": 7, "op": "gt"}),
    "type_security_group_rewrite": ("attribute_map", lambda rt: {"type": "security-group", "key": "GroupName", "op": "eq", "value": "x"}),
    "type_vpc_rewrite": ("attribute_map", lambda rt: {"type": "vpc", "key": "VpcId", "op": "eq", "value": "v"}),
    "type_kms_key_rewrite": ("attribute_map", lambda rt: {"type": "kms-key", "key": "c7n:AliasName", "op": "regex", "value": "^x"}),
    "cross_account_rewrite": ("resource_type_map", lambda rt: {"type": "cross-account", "whitelist": ["1"]}),
    "used_rewrite": ("resource_type_map", lambda rt: {"type": "used"}),
}


def table_entries() -> List[Tuple[str, str]]:
    """(rewriter function name, resource type) for every key of the dict literals named attribute_map / resource_type_map in the rewriters' source."""
    out = []
    for fname, (varname, _) in TABLE_FUNCS.items():
        src = textwrap.dedent(inspect.getsource(getattr(C7N_Rewriter, fname)))
        tree = ast.parse(src)
        for node in ast.walk(tree):
            if isinstance(node, ast.Assign) and any(isinstance(t, ast.Name) and t.id == varname for t in node.targets) and isinstance(node.value, ast.Dict):
                for k in node.value.keys:
                    out.append((fname, ast.literal_eval(k)))
    return out


def check_tables(run: common.Run, report) -> int:
    entries = table_entries()
    if len(entries) < 60:
        raise common.HarnessError(f"only {len(entries)} table entries found: the source scan is broken")
    e = cel.env("I")
    for fname, rt in entries:
        run.tick()
        run.nt(("table", fname, rt))
        run.event("table-entry")
        clause = TABLE_FUNCS[fname][1](rt)
        try:
            text = translate(clause, rt)
        except Exception as ex:
            report(f"table[{fname}:{rt}]-translate-raises-{type(ex).__name__}", {"table": fname, "resource_type": rt}, f"{type(ex).__name__}: {ex}")
            continue
        try:
            e.compile(text)
        except celpy.CELParseError as ex:
            report(f"table[{fname}:{rt}]-invalid-cel", {"table": fname, "resource_type": rt, "cel": text}, f"{fname}({rt}) -> {text!r}: {ex.args[0][:80] if ex.args else ''} at {ex.line}:{ex.column}")
    run.extra["table_entries"] = len(entries)
    return len(entries)


# -------------------------------------------------------------------------------------------------------------


def replay(run: common.Run, case: dict, key: str = ""):
    problems = []
    rep = lambda k, c, d: problems.append((k, d))
    if "clause" in case:
        check_clause(run, case["clause"], case["resource"], case["want"], "replay", True, rep)
    elif "duration_kind" in case:
        check_duration(run, case["duration_kind"], Fraction(case["amount"]), rep)
    elif "literal" in case:
        check_string_literal(run, case["literal"], case["where"], rep)
    else:
        check_tables(run, rep)
    return problems


def campaign(run: common.Run) -> None:
    q = run.tier == "quick"

    def body_ops(v, s, lst):
        for c in op_cases(v, s, lst):
            check_clause(run, *c, run.hyp_fail)

    def body_time(days):
        for c in time_cases(days):
            check_clause(run, *c, run.hyp_fail)

    def body_keys(name, s):
        for c in key_cases(name, s):
            check_clause(run, *c, run.hyp_fail)

    def body_lit(s, where):
        check_string_literal(run, s, where, run.hyp_fail)

    def body_dur(kind, num, den):
        check_duration(run, kind, Fraction(num, den if kind == "days" else 1), run.hyp_fail)

    # (strings that look like something else: booleans in any capitalisation, null, numbers)
    plain = st.text(alphabet="abcXYZ019_-", min_size=1, max_size=6) | st.sampled_from(["True", "FALSE", "tRuE", "False", "TRUE", "None", "null", "Null", "1", "0", "yes", "no", "1.0", "-1", "present", "absent", "empty",
                                                                                    # letters whose lower-case, case-folded and upper-case forms do not line up
                                                                                    "Straße", "STRASSE", "ΟΔΌΣ", "οδός", "µs", "μs", "ﬁn", "İi", "ſ", "Maße", "masse"])
    lsts = st.lists(st.sampled_from(["a", "b", "c", "ab", ""]), min_size=1, max_size=3, unique=True)
    common.drive(run, body_ops, {"v": st.one_of(st.integers(-3, 3), st.integers(-10**6, 10**6)), "s": plain, "lst": lsts}, 60 if q else 400, seed_salt=1, shrink=False)
    common.drive(run, body_time, {"days": st.one_of(st.integers(0, 40), st.integers(0, 4000))}, 60 if q else 300, seed_salt=2, shrink=False)
    common.drive(run, body_keys, {"name": plain, "s": plain}, 60 if q else 400, seed_salt=3, shrink=False)
    strings = st.one_of(values.text(8), st.sampled_from(['"', "\\", "\n", "a\\nb", 'say "hi"', "it's", "tab\there", "C:\\path\\", "é✓", "\U0001f431", "\\", "a\\", "\r\n", "{x}", "$(x)", " "]))
    key_ok = strings.filter(lambda s: s and "." not in s and not s.startswith("tag:") and "(" not in s)
    common.drive(run, body_lit, {"s": strings, "where": st.sampled_from(["value", "list-member", "url"])}, 500 if q else 8000, seed_salt=4, shrink=False)
    common.drive(run, body_lit, {"s": key_ok, "where": st.sampled_from(["key", "tag"])}, 300 if q else 5000, seed_salt=5, shrink=False)
    common.drive(run, body_dur, {"kind": st.sampled_from(["days", "seconds"]), "num": st.one_of(st.integers(0, 100), st.integers(0, 10**7)), "den": st.sampled_from([1, 1, 2, 24, 1440, 86400])},
                 400 if q else 6000, seed_salt=6)


def main(run: common.Run) -> None:
    run.assumptions = [
        "relations as Custodian's ValueFilter applies them: present/not-null <=> truthy value, absent/empty <=> falsy; age = (now - attribute) OP N days, expiration = (attribute - now) OP N days",
        "regex, cidr, cidr_size, date, version, resource_count are outside the statement's list and not asserted",
        "keys used as arbitrary strings avoid '.', a 'tag:' prefix and 'f(x)' shapes (these have a key syntax of their own, exercised separately)",
        "day counts are multiples of 1/86400 day so the duration is a whole number of seconds",
        "glob patterns/values without characters that are special to both glob and CEL escapes at once",
    ]
    for p in common.committed_replays(run.pid):
        doc = common.load_replay(p)
        for k, d in replay(run, doc["case"], doc.get("key", "")):
            run.fail(k, doc["case"], d)
        run.event("replayed")
    check_tables(run, run.fail)
    for c in op_cases(5, "abc", ["a", "b"]) + time_cases(0) + time_cases(30) + key_cases("Name", "web"):
        check_clause(run, *c, run.fail)
    for kind, amount in (("days", Fraction(0)), ("seconds", Fraction(0)), ("days", Fraction(1)), ("days", Fraction(1, 2)), ("seconds", Fraction(86400)), ("seconds", Fraction(59)), ("days", Fraction(1, 86400))):
        check_duration(run, kind, amount, run.fail)
    if run.tier == "quick":
        campaign(run)
    else:
        for s in common.run_sharded(run.pid, run.tier, run.seed, campaign, 16, RULE):
            run.merge(s)
