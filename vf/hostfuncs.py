"""Host (extension) functions used by the history check C05; module-level so that history children and the fresh-process zygote share one definition."""

from __future__ import annotations

from celpy import celtypes as ct


def shout(s):
    return ct.StringType(str(s) + "!")


def size(x):  # deliberately shadows the built-in size() for the programs it is given to
    return ct.IntType(42)


# index -> what is passed as Environment.program(ast, functions=...)
CONFIGS = [None, {"shout": shout}, [shout], [size, shout], {"size": size}]
NAMES = ["none", "dict{shout}", "list[shout]", "list[size,shout]", "dict{size}"]
