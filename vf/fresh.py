""""Evaluate alone in a fresh process" oracle.

A zygote process imports celpy (from the same PYTHONPATH) and does nothing else: no Environment, no parser, no evaluation.
For every request it forks a child; the child performs exactly one (environment, compile, program, evaluate) and prints the
canonical outcome; the zygote itself never evaluates anything, so every answer comes from a process with no history.
"""

from __future__ import annotations

import json
import os
import subprocess
import sys
from typing import Any, Dict, Optional, Tuple

ZYGOTE_SRC = r'''
import json, os, sys
sys.setrecursionlimit(2500)
import logging; logging.disable(logging.CRITICAL)
import celpy, celpy.c7nlib
from vf import outcome, values, fresh, hostfuncs
fresh.speed_up_parser_construction()
RUNNERS = {"I": celpy.InterpretedRunner, "C": celpy.CompiledRunner}
ANN = {"int": celpy.celtypes.IntType, "map": celpy.celtypes.MapType, "string": celpy.celtypes.StringType, "bool": celpy.celtypes.BoolType, "list": celpy.celtypes.ListType}

def build(v):
    if isinstance(v, dict):
        return celpy.celtypes.MapType({celpy.celtypes.StringType(k): build(x) for k, x in v.items()})
    if isinstance(v, list):
        return celpy.celtypes.ListType([build(x) for x in v])
    if isinstance(v, bool):
        return celpy.celtypes.BoolType(v)
    if isinstance(v, int):
        return celpy.celtypes.IntType(v)
    if isinstance(v, str):
        return celpy.celtypes.StringType(v)
    if v is None:
        return None
    raise ValueError(v)

def one(req):
    try:
        env = celpy.Environment(package=req["package"], annotations={k: ANN[t] for k, t in req["annotations"].items()} or None, runner_class=RUNNERS[req["runner"]])
        try:
            ast = env.compile(req["expr"])
        except celpy.CELParseError as ex:
            return ["parse_error", ex.line, ex.column]
        try:
            prgm = env.program(ast, functions=hostfuncs.CONFIGS[req.get("functions", 0)])
        except Exception as ex:
            return ["crash", type(ex).__name__, "program"]
        try:
            v = prgm.evaluate({k: build(x) for k, x in req["bindings"].items()})
            return ["value", repr(outcome.value_outcome(v))]
        except celpy.CELEvalError:
            return ["error"]
        except Exception as ex:
            return ["crash", type(ex).__name__, "evaluate"]
    except Exception as ex:
        return ["crash", type(ex).__name__, "environment"]

for line in sys.stdin:
    req = json.loads(line)
    r, w = os.pipe()
    pid = os.fork()
    if pid == 0:
        os.close(r)
        try:
            out = json.dumps(one(req))
        except BaseException as ex:
            out = json.dumps(["crash", type(ex).__name__, "child"])
        os.write(w, out.encode())
        os._exit(0)
    os.close(w)
    data = b""
    while True:
        chunk = os.read(r, 65536)
        if not chunk:
            break
        data += chunk
    os.close(r)
    os.waitpid(pid, 0)
    sys.stdout.write(data.decode() + "\n")
    sys.stdout.flush()
'''


def _cache_dir() -> str:
    d = os.path.join(os.path.dirname(os.path.dirname(os.path.abspath(__file__))), ".cache")
    os.makedirs(d, exist_ok=True)
    return d


def speed_up_parser_construction() -> None:
    """Let lark load its LALR analysis of cel.lark from a file instead of recomputing it (0.1 s -> 6 ms per parser).
    Every process still builds its own parser objects, once per tree class, exactly as the library does: only the grammar
    analysis is cached, keyed by grammar text and tree class. Applied identically in history children and in the zygote."""
    import functools
    import hashlib

    import celpy.celparser as cp

    if getattr(cp.Lark, "_verif_cached", False):
        return
    orig = cp.Lark
    grammar_file = os.path.join(os.path.dirname(cp.__file__), "cel.lark")
    digest = hashlib.sha1(open(grammar_file, "rb").read()).hexdigest()[:12]

    def cached_lark(grammar, **kw):
        tc = kw.get("tree_class")
        name = getattr(tc, "__name__", "Tree")
        return orig(grammar, cache=os.path.join(_cache_dir(), f"lark-{digest}-{name}.cache"), **kw)

    cached_lark._verif_cached = True  # type: ignore[attr-defined]
    cp.Lark = cached_lark  # type: ignore[assignment]


def warm_cache() -> None:
    """Create the grammar-analysis cache files in a throw-away subprocess (never in the checking process or the zygote)."""
    src = (
        "import celpy, celpy.celparser as cp\n"
        "from vf import fresh\n"
        "fresh.speed_up_parser_construction()\n"
        "celpy.Environment(); cp.CELParser.CEL_PARSER = None; celpy.Environment(runner_class=celpy.CompiledRunner)\n"
    )
    subprocess.run([sys.executable, "-c", src], check=True, stdout=subprocess.DEVNULL, stderr=subprocess.DEVNULL, env=dict(os.environ))


class Zygote:
    def __init__(self) -> None:
        env = dict(os.environ)
        self.proc = subprocess.Popen([sys.executable, "-c", ZYGOTE_SRC], stdin=subprocess.PIPE, stdout=subprocess.PIPE, stderr=subprocess.DEVNULL, text=True, env=env)
        self.cache: Dict[str, Any] = {}
        self.requests = 0

    def alone(self, runner: str, package: Optional[str], annotations: Dict[str, str], expr: str, bindings: Dict[str, Any], functions: int = 0) -> Tuple:
        req = {"runner": runner, "package": package, "annotations": annotations, "expr": expr, "bindings": bindings, "functions": functions}
        key = json.dumps(req, sort_keys=True)
        if key not in self.cache:
            self.requests += 1
            assert self.proc.stdin and self.proc.stdout
            self.proc.stdin.write(key + "\n")
            self.proc.stdin.flush()
            line = self.proc.stdout.readline()
            if not line:
                raise RuntimeError("zygote died")
            self.cache[key] = tuple(json.loads(line))
        return self.cache[key]

    def close(self) -> None:
        try:
            if self.proc.stdin:
                self.proc.stdin.close()
            self.proc.wait(timeout=10)
        except Exception:
            self.proc.kill()


CLI_ZYGOTE_SRC = r'''
import contextlib, io, json, os, sys
sys.setrecursionlimit(2500)
import logging
import celpy, celpy.__main__ as cli
from vf import fresh
fresh.speed_up_parser_construction()

def one(req):
    out, err = io.StringIO(), io.StringIO()
    sys.stdin = io.StringIO(req["stdin"])
    with contextlib.redirect_stdout(out), contextlib.redirect_stderr(err):
        try:
            status = cli.main(req["argv"])
        except SystemExit as ex:
            status = ["SystemExit", ex.code]
        except Exception as ex:
            status = ["exception", type(ex).__name__]
    return [status, out.getvalue(), err.getvalue()]

for line in sys.stdin:
    req = json.loads(line)
    r, w = os.pipe()
    pid = os.fork()
    if pid == 0:
        os.close(r)
        try:
            data = json.dumps(one(req))
        except BaseException as ex:
            data = json.dumps([["exception", "child-" + type(ex).__name__], "", ""])
        os.write(w, data.encode())
        os._exit(0)
    os.close(w)
    data = b""
    while True:
        chunk = os.read(r, 65536)
        if not chunk:
            break
        data += chunk
    os.close(r)
    os.waitpid(pid, 0)
    sys.__stdout__.write(data.decode() + "\n")
    sys.__stdout__.flush()
'''


class CliZygote:
    """`celpy` command line runs, each in a process forked from one that has imported the CLI module and never run it: a run cannot see what an
    earlier run left behind in the process (caches, module globals)."""

    def __init__(self) -> None:
        self.proc = subprocess.Popen([sys.executable, "-c", CLI_ZYGOTE_SRC], stdin=subprocess.PIPE, stdout=subprocess.PIPE, stderr=subprocess.DEVNULL, text=True, env=dict(os.environ))
        self.cache: Dict[str, Any] = {}
        self.requests = 0

    def run(self, argv, stdin_text: str = "") -> Tuple[Any, str, str]:
        key = json.dumps({"argv": list(argv), "stdin": stdin_text})
        if key not in self.cache:
            self.requests += 1
            assert self.proc.stdin and self.proc.stdout
            self.proc.stdin.write(key + "\n")
            self.proc.stdin.flush()
            line = self.proc.stdout.readline()
            if not line:
                raise RuntimeError("CLI zygote died")
            status, out, err = json.loads(line)
            self.cache[key] = (tuple(status) if isinstance(status, list) else status, out, err)
        return self.cache[key]

    def close(self) -> None:
        try:
            if self.proc.stdin:
                self.proc.stdin.close()
            self.proc.wait(timeout=10)
        except Exception:
            self.proc.kill()
