"""Independent proleptic-Gregorian calendar arithmetic on integers (no datetime)."""

from __future__ import annotations

from typing import Dict, Tuple


def days_from_civil(y: int, m: int, d: int) -> int:
    """Days since 1970-01-01 for a proleptic Gregorian civil date."""
    y -= m <= 2
    era = (y if y >= 0 else y - 399) // 400
    yoe = y - era * 400
    doy = (153 * (m + (-3 if m > 2 else 9)) + 2) // 5 + d - 1
    doe = yoe * 365 + yoe // 4 - yoe // 100 + doy
    return era * 146097 + doe - 719468


def civil_from_days(z: int) -> Tuple[int, int, int]:
    z += 719468
    era = (z if z >= 0 else z - 146096) // 146097
    doe = z - era * 146097
    yoe = (doe - doe // 1460 + doe // 36524 - doe // 146096) // 365
    y = yoe + era * 400
    doy = doe - (365 * yoe + yoe // 4 - yoe // 100)
    mp = (5 * doy + 2) // 153
    d = doy - (153 * mp + 2) // 5 + 1
    m = mp + (3 if mp < 10 else -9)
    return (y + (m <= 2), m, d)


def is_leap(y: int) -> bool:
    return y % 4 == 0 and (y % 100 != 0 or y % 400 == 0)


def fields(us: int, offset_s: int = 0) -> Dict[str, int]:
    """Civil fields of the instant `us` (microseconds since epoch) at UTC offset `offset_s` seconds."""
    local = us + offset_s * 1_000_000
    days, rem = divmod(local, 86400 * 1_000_000)
    y, m, d = civil_from_days(days)
    secs, micro = divmod(rem, 1_000_000)
    hh, r = divmod(secs, 3600)
    mm, ss = divmod(r, 60)
    doy = days - days_from_civil(y, 1, 1)
    dow = (days + 4) % 7  # 1970-01-01 was a Thursday; 0 = Sunday
    return {
        "getFullYear": y,
        "getMonth": m - 1,
        "getDate": d,
        "getDayOfMonth": d - 1,
        "getDayOfYear": doy,
        "getDayOfWeek": dow,
        "getHours": hh,
        "getMinutes": mm,
        "getSeconds": ss,
        "getMilliseconds": micro // 1000,
    }


def rfc3339(us: int, offset_min: int = 0) -> str:
    """RFC 3339 text of an instant at a fixed offset (whole seconds or with fractional part)."""
    f = fields(us, offset_min * 60)
    micro = (us + offset_min * 60 * 1_000_000) % 1_000_000
    frac = f".{micro:06d}" if micro else ""
    if offset_min == 0:
        tz = "Z"
    else:
        sign = "+" if offset_min > 0 else "-"
        a = abs(offset_min)
        tz = f"{sign}{a // 60:02d}:{a % 60:02d}"
    return (
        f"{f['getFullYear']:04d}-{f['getMonth'] + 1:02d}-{f['getDate']:02d}T"
        f"{f['getHours']:02d}:{f['getMinutes']:02d}:{f['getSeconds']:02d}{frac}{tz}"
    )
