"""Normal form of "what an evaluation did" and strict comparison.

Outcome = ("value", class_name, canon) | ("error",) | ("parse_error", line, col) | ("crash", exc_class, phase)

canon distinguishes -0.0 from 0.0, True from 1, 1 from 1u from 1.0; NaN equals NaN.
"""

from __future__ import annotations

import datetime
import struct
from typing import Any, Tuple

import celpy
from celpy import celtypes
from celpy.evaluation import CELEvalError
from celpy.celparser import CELParseError

EPOCH = datetime.datetime(1970, 1, 1, tzinfo=datetime.timezone.utc)


CEL_TYPE_NAMES = {
    "IntType": "int", "UintType": "uint", "DoubleType": "double", "BoolType": "bool", "StringType": "string", "BytesType": "bytes",
    "ListType": "list", "MapType": "map", "NoneType": "null_type", "TimestampType": "timestamp", "DurationType": "duration", "TypeType": "type",
}


def td_micros(td: datetime.timedelta) -> int:
    return (td.days * 86400 + td.seconds) * 1_000_000 + td.microseconds


def ts_micros(ts: datetime.datetime) -> int:
    if ts.tzinfo is None:
        ts = ts.replace(tzinfo=datetime.timezone.utc)
    return td_micros(ts - EPOCH)


def dbl(v: float) -> str:
    if v != v:
        return "nan"
    return struct.pack(">d", float(v)).hex()


def kind_of(v: Any) -> str:
    """CEL kind of a runtime value, accepting degraded natives (float for double, ...)."""
    if v is None:
        return "null"
    if isinstance(v, celtypes.BoolType) or isinstance(v, bool):
        return "bool"
    if isinstance(v, celtypes.UintType):
        return "uint"
    if isinstance(v, celtypes.IntType):
        return "int"
    if isinstance(v, int):
        return "int"  # degraded native int
    if isinstance(v, float):
        return "double"
    if isinstance(v, str):
        return "string"
    if isinstance(v, bytes):
        return "bytes"
    if isinstance(v, (list, tuple)):
        return "list"
    if isinstance(v, dict):
        return "map"
    if isinstance(v, datetime.datetime):
        return "timestamp"
    if isinstance(v, datetime.timedelta):
        return "duration"
    if isinstance(v, type):
        return "type"
    return "other"


def canon(v: Any) -> Any:
    k = kind_of(v)
    if k == "null":
        return ("null",)
    if k == "bool":
        return ("bool", bool(v))
    if k in ("int", "uint"):
        return (k, int(v))
    if k == "double":
        return ("double", dbl(v))
    if k == "string":
        return ("string", str(v))
    if k == "bytes":
        return ("bytes", bytes(v).hex())
    if k == "list":
        return ("list", tuple(canon(i) for i in v))
    if k == "map":
        items = [(canon(a), canon(b)) for a, b in v.items()]
        items.sort(key=repr)
        return ("map", tuple(items))
    if k == "timestamp":
        return ("timestamp", ts_micros(v))
    if k == "duration":
        return ("duration", td_micros(v))
    if k == "type":
        return ("type", CEL_TYPE_NAMES.get(v.__name__, "py:" + v.__name__))
    return ("other", type(v).__name__, repr(v)[:200])


def classes(v: Any) -> Any:
    """Exact-class skeleton of a value (recursive for containers)."""
    n = type(v).__name__
    if isinstance(v, (list, tuple)):
        return (n, tuple(classes(i) for i in v))
    if isinstance(v, dict):
        items = [(repr(canon(a)), classes(a), classes(b)) for a, b in v.items()]
        items.sort()
        return (n, tuple((a, b) for _, a, b in items))
    return n


def value_outcome(v: Any) -> Tuple:
    return ("value", classes(v), canon(v))


def short(o: Tuple) -> str:
    if o[0] == "value":
        return f"value {o[1]} {o[2]}"
    return " ".join(str(x) for x in o)


def same_value(a: Tuple, b: Tuple) -> bool:
    """Equality on the canonical value, ignoring classes."""
    if a[0] != b[0]:
        return False
    if a[0] == "value":
        return a[2] == b[2]
    if a[0] == "error":
        return True
    return a == b
