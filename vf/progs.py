"""Program sources shared by C03/C04: IR programs, corpus expressions and their mutations; domain filters; crash bucketing."""

from __future__ import annotations

import traceback
from typing import Any, Dict, List, Optional, Set, Tuple

from hypothesis import strategies as st

from vf import cel, corpus, gen, ir

MACROS = {"map", "filter", "all", "exists", "exists_one"}
NONSTANDARD_MACROS = {"reduce", "min"}

ABSORBERS = ["({e}) || true", "false && ({e})", "true ? 1 : ({e})", "[({e})].exists(zz9, true)", "[1].all(zz9, false && ({e}) == ({e}))", "!(({e}) == ({e})) || true"]


def parse_features(src: str) -> Optional[Set[str]]:
    """Rule names (and macro/function identifiers) of the parse tree; None if the text does not parse."""
    import lark

    e = cel.env("I")
    try:
        tree = e.compile(src)
    except Exception:
        return None
    feats: Set[str] = set()
    for t in tree.iter_subtrees():
        d = str(t.data)
        if d in ("member_object", "member_dot_arg", "member_index", "member_dot", "ident_arg", "dot_ident", "dot_ident_arg", "list_lit", "map_lit", "unary_not",
                 "unary_neg", "fieldinits", "mapinits"):
            feats.add(d)
        if d == "expr" and len(t.children) == 3:
            feats.add("cond")
        if d == "member_dot_arg":
            name = str(t.children[1])
            if name in MACROS or name in NONSTANDARD_MACROS:
                feats.add("macro:" + name)
                args = t.children[2] if len(t.children) == 3 else None
                nargs = len(args.children) if args is not None else 0
                want = 2
                if name in NONSTANDARD_MACROS:
                    feats.add("nonstandard-macro")
                elif nargs != want:
                    feats.add("macro-arity")
                elif not _is_ident(args.children[0]):
                    feats.add("macro-var-not-ident")
        if d == "ident_arg":
            name = str(t.children[0])
            feats.add("fn:" + name)
            if name == "has":
                feats.add("has")
                args = t.children[1] if len(t.children) == 2 else None
                if args is None or len(args.children) != 1 or not _is_select(args.children[0]):
                    feats.add("has-arg-not-select")
    return feats


def _chain(t: Any) -> Any:
    """Descend through single-child nodes."""
    import lark

    while isinstance(t, lark.Tree) and len(t.children) == 1 and isinstance(t.children[0], lark.Tree) and t.data not in ("ident", "literal", "paren_expr", "member_dot"):
        t = t.children[0]
    return t


def _is_ident(t: Any) -> bool:
    import lark

    t = _chain(t)
    return isinstance(t, lark.Tree) and t.data == "ident"


def _is_select(t: Any) -> bool:
    import lark

    t = _chain(t)
    return isinstance(t, lark.Tree) and t.data == "member_dot"


# (macros whose iteration variable is not an identifier, and the reduce()/min() extension macros, used to be listed here; the text parses, so the
# properties speak of it: the crashes they caused were repaired in /repo and the remaining runner difference is a recorded finding)
OUT_OF_DOMAIN = {
    "has-arg-not-select": "has() whose argument is not a field selection: a parse-time error in CEL",
}


def out_of_domain(feats: Optional[Set[str]]) -> Optional[str]:
    if feats is None:
        return None
    for k in OUT_OF_DOMAIN:
        if k in feats:
            return k
    return None


def crash_bucket(ex: BaseException) -> str:
    """(exception type, innermost frame inside the celpy / xlate packages)."""
    tb = traceback.extract_tb(ex.__traceback__)
    where = "?"
    for fr in reversed(tb):
        fn = fr.filename.replace("\\", "/")
        if "/celpy/" in fn or "/xlate/" in fn:
            where = f"{fn.rsplit('/', 1)[1][:-3]}.{fr.name}"
            break
    return f"{type(ex).__name__}@{where}"


# --- Hypothesis sources -------------------------------------------------------------------------------


def corpus_expr():
    return st.sampled_from(corpus.expressions())


@st.composite
def mutated_corpus(draw) -> str:
    """A corpus expression with one mutation: wrapped in an absorbing context, an operator swapped, or a literal replaced."""
    e = draw(corpus_expr())
    k = draw(st.integers(0, 5))
    if k <= 2:
        return draw(st.sampled_from(ABSORBERS)).format(e=e)
    if k == 3:
        ops = [" + ", " - ", " * ", " / ", " % ", " == ", " != ", " < ", " <= ", " > ", " >= ", " && ", " || ", " in "]
        present = [o for o in ops if o in e]
        if present:
            o = draw(st.sampled_from(present))
            return e.replace(o, draw(st.sampled_from(ops)), 1)
        return f"({e}) == ({e})"
    if k == 4:
        return f"has(({e}).a) || ({e}) == ({e})"
    lit = draw(st.sampled_from(["0", "1", "-1", "1u", "1.5", "'a'", "b'a'", "true", "null", "[]", "{}", "[1]", "{'a': 1}", "9223372036854775807", "x"]))
    import re

    m = list(re.finditer(r"\b\d+\b", e))
    if m:
        mm = draw(st.sampled_from(m))
        return e[: mm.start()] + lit + e[mm.end():]
    return f"({e}) + {lit}"
