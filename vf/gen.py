"""Hypothesis strategies producing IR programs: type-directed (well-typed) and grammar-directed (possibly ill-typed).

A "program" is (node, static_type, env) where env = {var: (kind, payload)} describes the activation.
"""

from __future__ import annotations

from typing import Any, Dict, List, Optional, Tuple

from hypothesis import strategies as st

from vf import values

SCALAR = ["int", "uint", "double", "bool", "string", "bytes"]
KEYK = ["int", "uint", "bool", "string"]

# The standard activation: names, kinds (payloads are drawn per program).
VAR_KINDS = {
    "i1": "int", "i2": "int", "u1": "uint", "d1": "double", "b1": "bool", "b2": "bool", "s1": "string", "s2": "string", "y1": "bytes",
    "li": "list<int>", "lu": "list<uint>", "ls": "list<string>", "lb": "list<bool>", "ll": "list<list<int>>",
    "msi": "map<string,int>", "mis": "map<int,string>", "msl": "map<string,list<int>>", "mbs": "map<bool,string>", "mus": "map<uint,string>",
    "t1": "timestamp", "t2": "timestamp", "dd1": "duration", "dd2": "duration",
}

FIELD_NAMES = ["a", "b", "k", "f_1"]


def small_int():
    return st.one_of(st.integers(-5, 5), st.integers(-5, 5), values.int64())


def small_uint():
    return st.one_of(st.integers(0, 5), st.integers(0, 5), values.uint64())


def small_double():
    return st.one_of(st.sampled_from([0.0, 1.0, -1.0, 0.5, 2.0, -0.0, 1e10, 3.25]), values.finite_double())


def small_string():
    return st.one_of(values.small_text(), values.small_text(), st.sampled_from(["", "a", "ab", "abc", "b", "é", "\U0001f431a", "a.b", "A"]), values.text(5))


def payload_of(kind: str):
    if kind == "int":
        return small_int()
    if kind == "uint":
        return small_uint()
    if kind == "double":
        return small_double()
    if kind == "bool":
        return st.booleans()
    if kind == "string":
        return small_string()
    if kind == "bytes":
        return st.one_of(st.sampled_from([b"", b"a", b"ab", b"\xff"]), values.binary(4))
    if kind == "null":
        return st.none()
    if kind == "timestamp":
        return st.one_of(st.sampled_from([0, 1234567890 * 10**6, 951782400 * 10**6, -1, 86399999999]), values.timestamp_us())
    if kind == "duration":
        return st.one_of(st.sampled_from([0, 10**6, -(10**6), 3600 * 10**6, 1500000]), values.duration_us())
    if kind.startswith("list<"):
        return st.lists(payload_of(kind[5:-1]), max_size=4)
    if kind.startswith("map<"):
        kk, vk = kind[4:-1].split(",", 1)
        keys = {"int": st.integers(-2, 3), "uint": st.integers(0, 3), "bool": st.booleans(), "string": st.sampled_from(FIELD_NAMES + ["", "zz"])}[kk]
        return st.dictionaries(keys, payload_of(vk), max_size=3)
    raise ValueError(kind)


@st.composite
def environment(draw, kinds: Optional[Dict[str, str]] = None) -> Dict[str, Tuple[str, Any]]:
    kinds = kinds or VAR_KINDS
    return {name: (k, draw(payload_of(k))) for name, k in kinds.items()}


def _vars_of(scope: Dict[str, str], kind: str) -> List[str]:
    return [n for n, k in scope.items() if k == kind]


REGEX_ATOMS = ["a", "b", "c", ".", "[ab]", "[^a]", "[a-c]", "(a|b)", "(ab)", "a*", "b+", "c?", "(a|b)*", "^", "$", "\\\\."]
BAD_PATTERNS = ["(", "a)", "[a", "*a", "a**", "[b-a]", "(?P<n", "a{2,1}"]


@st.composite
def regex_pattern(draw) -> str:
    if draw(st.integers(0, 9)) == 0:
        return draw(st.sampled_from(BAD_PATTERNS))
    parts = draw(st.lists(st.sampled_from(REGEX_ATOMS), min_size=0, max_size=4))
    # anchors only at the ends (keeps the fragment inside what remini accepts)
    body = [p for p in parts if p not in ("^", "$")]
    pat = "".join(body)
    if "^" in parts:
        pat = "^" + pat
    if "$" in parts:
        pat = pat + "$"
    return pat.replace("\\\\.", "\\.")


@st.composite
def typed_expr(draw, T: str, depth: int, scope: Dict[str, str], opts: Optional[dict] = None) -> Tuple:
    """A well-typed IR node of static type T using variables from scope ({name: kind})."""
    opts = opts or {}
    leaf = depth <= 0 or draw(st.integers(0, 9)) < 2
    vs = _vars_of(scope, T)

    def sub(T2: str, sc: Optional[Dict[str, str]] = None) -> Tuple:
        return draw(typed_expr(T2, depth - 1, sc if sc is not None else scope, opts))

    def lit() -> Tuple:
        if T.startswith("list<"):
            inner = T[5:-1]
            n = draw(st.integers(0, 3))
            return ("list", tuple(draw(typed_expr(inner, 0, scope, opts)) for _ in range(n)))
        if T.startswith("map<"):
            kk, vk = T[4:-1].split(",", 1)
            n = draw(st.integers(0, 3))
            return ("map", tuple((draw(typed_expr(kk, 0, scope, opts)), draw(typed_expr(vk, 0, scope, opts))) for _ in range(n)))
        if T == "timestamp":
            us = draw(st.sampled_from([0, 1234567890 * 10**6, 951782400 * 10**6, 1000 * 10**6]))
            from vf import calendar

            return ("call", "timestamp", (("lit", "string", calendar.rfc3339(us)),))
        if T == "duration":
            s = draw(st.sampled_from([0, 1, 60, 3600, -5, 86400]))
            return ("call", "duration", (("lit", "string", f"{s}s"),))
        if T == "type":
            return ("call", "type", (draw(typed_expr(draw(st.sampled_from(SCALAR)), 0, scope, opts)),))
        return ("lit", T, draw(payload_of(T)))

    if leaf:
        if vs and draw(st.booleans()):
            return ("var", draw(st.sampled_from(vs)))
        return lit()

    choices: List[str] = ["leaf", "cond"]
    if T == "bool":
        choices += ["rel", "rel", "eq", "eq", "in_list", "in_map", "strpred", "matches", "has", "and", "or", "not", "all", "exists", "exists_one", "map_index", "list_index"]
    elif T in ("int", "uint"):
        choices += ["arith", "arith", "arith", "conv", "list_index", "map_index"]
        if T == "int":
            choices += ["neg", "size", "size", "select"]
    elif T == "double":
        choices += ["arith", "arith", "neg", "conv"]
    elif T == "string":
        choices += ["concat", "concat", "conv", "list_index", "map_index", "select"]
    elif T == "bytes":
        choices += ["concat", "conv"]
    elif T.startswith("list<"):
        choices += ["concat", "mapmacro", "filter", "list_index", "map_index"]
    elif T == "timestamp":
        choices += ["ts_arith"]
    elif T == "duration":
        choices += ["dur_arith"]
    elif T == "type":
        choices = ["typeof"]
    choices = [c for c in choices if c not in opts.get("exclude", ())]
    c = draw(st.sampled_from(choices))

    if c == "leaf":
        return ("var", draw(st.sampled_from(vs))) if vs and draw(st.booleans()) else lit()
    if c == "cond":
        return ("cond", sub("bool"), sub(T), sub(T))
    if c == "typeof":
        return ("call", "type", (sub(draw(st.sampled_from(SCALAR + ["list<int>", "map<string,int>", "null", "timestamp", "duration"]))),))
    if c == "rel":
        K = draw(st.sampled_from(["int", "uint", "double", "string", "bytes", "bool", "timestamp", "duration"]))
        return ("bin", draw(st.sampled_from(["<", "<=", ">", ">="])), sub(K), sub(K))
    if c == "eq":
        K = draw(st.sampled_from(SCALAR + ["list<int>", "list<string>", "map<string,int>", "null", "timestamp", "duration", "list<list<int>>"]))
        return ("bin", draw(st.sampled_from(["==", "!="])), sub(K), sub(K))
    if c == "in_list":
        K = draw(st.sampled_from(["int", "uint", "string", "bool"]))
        return ("bin", "in", sub(K), sub(f"list<{K}>"))
    if c == "in_map":
        K, V = draw(st.sampled_from([("string", "int"), ("int", "string"), ("bool", "string"), ("uint", "string")]))
        return ("bin", "in", sub(K), sub(f"map<{K},{V}>"))
    if c == "strpred":
        fn = draw(st.sampled_from(["contains", "startsWith", "endsWith"]))
        return ("method", sub("string"), fn, (sub("string"),))
    if c == "matches":
        pat = ("lit", "string", draw(regex_pattern()))
        recv = sub("string") if draw(st.booleans()) else ("lit", "string", draw(st.text(alphabet="abc.", max_size=5)))
        if draw(st.booleans()):
            return ("method", recv, "matches", (pat,))
        return ("call", "matches", (recv, pat))
    if c == "has":
        return ("has", sub(draw(st.sampled_from(["map<string,int>", "map<string,list<int>>"]))), draw(st.sampled_from(FIELD_NAMES)))
    if c in ("and", "or"):
        return ("bin", "&&" if c == "and" else "||", sub("bool"), sub("bool"))
    if c == "not":
        return ("un", "!", sub("bool"))
    if c in ("all", "exists", "exists_one"):
        K = draw(st.sampled_from(["int", "string", "bool", "uint"]))
        var = draw(st.sampled_from(["x", "y"]))
        sc = dict(scope)
        sc[var] = K
        return ("macro", sub(f"list<{K}>"), c, var, sub("bool", sc))
    if c == "arith":
        op = draw(st.sampled_from(["+", "-", "*", "/", "%"] if T != "double" else ["+", "-", "*", "/"]))
        return ("bin", op, sub(T), sub(T))
    if c == "neg":
        return ("un", "-", sub(T))
    if c == "size":
        K = draw(st.sampled_from(["string", "bytes", "list<int>", "list<string>", "map<string,int>"]))
        a = sub(K)
        return ("call", "size", (a,)) if draw(st.booleans()) else ("method", a, "size", ())
    if c == "conv":
        src = {
            "int": ["uint", "double", "int", "string-int"], "uint": ["int", "double", "uint", "string-int"], "double": ["int", "uint", "double"],
            "string": ["int", "uint", "bytes", "string"], "bytes": ["string", "bytes"],
        }[T]
        S = draw(st.sampled_from(src))
        if S == "string-int":
            return ("call", T, (("lit", "string", str(draw(st.one_of(st.integers(-10, 10), values.int64(), values.uint64())))),))
        return ("call", T, (sub(S),))
    if c == "concat":
        return ("bin", "+", sub(T), sub(T))
    if c == "list_index":
        idx = ("lit", "int", draw(st.one_of(st.integers(-1, 4), st.integers(-1, 4), values.int64()))) if draw(st.booleans()) else sub("int")
        return ("index", sub(f"list<{T}>"), idx)
    if c == "map_index":
        K = draw(st.sampled_from(KEYK))
        m = sub(f"map<{K},{T}>")
        return ("index", m, sub(K))
    if c == "select":
        return ("select", sub(f"map<string,{T}>"), draw(st.sampled_from(FIELD_NAMES)))
    if c == "mapmacro":
        inner = T[5:-1]
        K = draw(st.sampled_from(["int", "string", "bool", "uint"]))
        var = draw(st.sampled_from(["x", "y"]))
        sc = dict(scope)
        sc[var] = K
        return ("macro", sub(f"list<{K}>"), "map", var, sub(inner, sc))
    if c == "filter":
        inner = T[5:-1]
        var = draw(st.sampled_from(["x", "y"]))
        sc = dict(scope)
        sc[var] = inner
        return ("macro", sub(T), "filter", var, sub("bool", sc))
    if c == "ts_arith":
        k = draw(st.integers(0, 2))
        if k == 0:
            return ("bin", "+", sub("timestamp"), sub("duration"))
        if k == 1:
            return ("bin", "+", sub("duration"), sub("timestamp"))
        return ("bin", "-", sub("timestamp"), sub("duration"))
    if c == "dur_arith":
        k = draw(st.integers(0, 2))
        if k == 0:
            return ("bin", "-", sub("timestamp"), sub("timestamp"))
        return ("bin", "+" if k == 1 else "-", sub("duration"), sub("duration"))
    raise ValueError(c)


ROOT_TYPES = ["bool", "bool", "bool", "int", "int", "uint", "double", "string", "bytes", "list<int>", "list<string>", "list<bool>", "map<string,int>",
              "timestamp", "duration", "type", "list<list<int>>", "null"]


@st.composite
def typed_program(draw, max_depth: int = 4, root_types: Optional[List[str]] = None, var_kinds: Optional[Dict[str, str]] = None, opts: Optional[dict] = None):
    from vf import ir

    kinds = var_kinds or VAR_KINDS
    T = draw(st.sampled_from(root_types or ROOT_TYPES))
    node = draw(typed_expr(T, draw(st.integers(1, max_depth)), dict(kinds), opts))
    used = sorted({x[1] for x in ir.walk(node) if x[0] == "var" and x[1] in kinds})
    env = {name: (kinds[name], draw(payload_of(kinds[name]))) for name in used}  # payloads only for the variables the program reads
    return node, T, env


# ---------------------------------------------------------------------------------------------------
# Grammar-directed (ill-typed allowed)

ALL_LEAF_KINDS = ["int", "uint", "double", "bool", "string", "bytes", "null"]
FUNCS1 = ["size", "int", "uint", "double", "string", "bytes", "bool", "type", "duration", "timestamp", "dyn", "nofunc", "list", "map"]
METHODS0 = ["size", "getFullYear", "getMonth", "getDate", "getDayOfMonth", "getDayOfWeek", "getDayOfYear", "getHours", "getMinutes", "getSeconds", "getMilliseconds"]
METHODS1 = ["contains", "startsWith", "endsWith", "matches", "getHours", "nomethod"]
BINOPS = ["+", "-", "*", "/", "%", "==", "!=", "<", "<=", ">", ">=", "in", "&&", "||"]


@st.composite
def any_expr(draw, depth: int, names: List[str], macro_vars: Tuple[str, ...] = ()) -> Tuple:
    """Any expression derivable from the grammar: every leaf kind in every operand position."""
    if depth <= 0 or draw(st.integers(0, 9)) < 2:
        k = draw(st.integers(0, 11))
        if k < 5:
            kind = draw(st.sampled_from(ALL_LEAF_KINDS))
            return ("lit", kind, draw(payload_of(kind)))
        if k < 9 and (names or macro_vars):
            return ("var", draw(st.sampled_from(list(names) + list(macro_vars))))
        if k == 9:
            return ("var", draw(st.sampled_from(["undefined_name", "zz"])))
        if k == 10:
            return ("list", ())
        return ("map", ())

    def sub(mv: Tuple[str, ...] = macro_vars) -> Tuple:
        return draw(any_expr(depth - 1, names, mv))

    c = draw(st.sampled_from(["bin", "bin", "bin", "un", "cond", "index", "select", "call", "method", "macro", "macro", "list", "map", "has", "paren", "dotvar"]))
    if c == "bin":
        return ("bin", draw(st.sampled_from(BINOPS)), sub(), sub())
    if c == "un":
        return ("un", draw(st.sampled_from(["!", "-"])), sub())
    if c == "cond":
        return ("cond", sub(), sub(), sub())
    if c == "index":
        return ("index", sub(), sub())
    if c == "select":
        return ("select", sub(), draw(st.sampled_from(FIELD_NAMES + ["size", "x"])))
    if c == "has":
        return ("has", sub(), draw(st.sampled_from(FIELD_NAMES)))
    if c == "call":
        n = draw(st.integers(0, 9))
        if n < 7:
            return ("call", draw(st.sampled_from(FUNCS1)), (sub(),))
        if n == 7:
            return ("call", draw(st.sampled_from(["size", "nofunc", "int"])), ())
        return ("call", draw(st.sampled_from(["matches", "contains", "nofunc", "size"])), (sub(), sub()))
    if c == "method":
        if draw(st.integers(0, 7)) == 0:
            # a macro name with the wrong number of arguments: CEL treats it as an (unknown) method call
            n = draw(st.sampled_from([0, 1, 3]))
            return ("method", sub(), draw(st.sampled_from(["map", "filter", "all", "exists", "exists_one"])), tuple(("var", "x") if i == 0 else sub() for i in range(n)))
        if draw(st.booleans()):
            return ("method", sub(), draw(st.sampled_from(METHODS0)), ())
        return ("method", sub(), draw(st.sampled_from(METHODS1)), (sub(),))
    if c == "macro":
        var = draw(st.sampled_from(["x", "y", "i"]))
        return ("macro", sub(), draw(st.sampled_from(["map", "filter", "all", "exists", "exists_one"])), var, sub(macro_vars + (var,)))
    if c == "list":
        return ("list", tuple(sub() for _ in range(draw(st.integers(1, 3)))))
    if c == "map":
        return ("map", tuple((sub(), sub()) for _ in range(draw(st.integers(1, 2)))))
    if c == "paren":
        return ("paren", sub())
    return ("dotvar", draw(st.sampled_from(list(names) + ["undefined_name"]))) if names else sub()


@st.composite
def any_program(draw, max_depth: int = 4, var_kinds: Optional[Dict[str, str]] = None):
    from vf import ir

    kinds = var_kinds or VAR_KINDS
    node = draw(any_expr(draw(st.integers(1, max_depth)), sorted(kinds)))
    used = sorted({x[1] for x in ir.walk(node) if x[0] in ("var", "dotvar") and x[1] in kinds})
    env = {name: (kinds[name], draw(payload_of(kinds[name]))) for name in used}
    # leave some variables unbound on purpose
    if used and draw(st.integers(0, 5)) == 0:
        env.pop(draw(st.sampled_from(used)))
    return node, env


def bind_env(env: Dict[str, Tuple[str, Any]]) -> Dict[str, Any]:
    """Activation of celpy values for an env description."""
    return {name: values.to_cel(kind, payload) for name, (kind, payload) in env.items()}


def ref_env(env: Dict[str, Tuple[str, Any]]) -> Dict[str, Tuple]:
    from vf import refcel

    return {name: refcel.from_payload(kind, payload) for name, (kind, payload) in env.items()}
