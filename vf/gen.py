"""Hypothesis strategies producing IR programs: type-directed (well-typed) and grammar-directed (possibly ill-typed).

A "program" is (node, static_type, env) where env = {var: (kind, payload)} describes the activation.
"""

from __future__ import annotations

from typing import Any, Dict, List, Optional, Tuple

from hypothesis import strategies as st

from vf import values

SCALAR = ["int", "uint", "double", "bool", "string", "bytes"]
KEYK = ["int", "uint", "bool", "string"]

# The standard activation: names, kinds (payloads are drawn per program).
VAR_KINDS = {
    "i1": "int", "i2": "int", "u1": "uint", "d1": "double", "b1": "bool", "b2": "bool", "s1": "string", "s2": "string", "y1": "bytes",
    "li": "list<int>", "lu": "list<uint>", "ls": "list<string>", "lb": "list<bool>", "ll": "list<list<int>>",
    "msi": "map<string,int>", "mis": "map<int,string>", "msl": "map<string,list<int>>", "mbs": "map<bool,string>", "mus": "map<uint,string>",
    "t1": "timestamp", "t2": "timestamp", "dd1": "duration", "dd2": "duration",
}

FIELD_NAMES = ["a", "b", "k", "f_1"]


def small_int():
    return st.one_of(st.integers(-5, 5), st.integers(-5, 5), values.int64())


def small_uint():
    return st.one_of(st.integers(0, 5), st.integers(0, 5), values.uint64())


def small_double():
    # whole-valued doubles at and beyond the integer ranges are here on purpose: they are where a double meets an int (indexes, conversions, comparisons)
    return st.one_of(st.sampled_from([0.0, 1.0, -1.0, 0.5, 2.0, -0.0, 1e10, 3.25]), values.finite_double(),
                     st.sampled_from([2.0**63, -(2.0**63), 2.0**64, 9223372036854774784.0, 1e19, -1e19, 1e300, -1e300, 4294967296.0, 2.0**53 + 2, 1.7976931348623157e308, 5e-324]))


def small_string():
    return st.one_of(values.small_text(), values.small_text(), st.sampled_from(["", "a", "ab", "abc", "b", "é", "\U0001f431a", "a.b", "A", "a  b", "a b", " a", "a\tb", "x   //  y", "a  b  c"]), values.text(5))


def payload_of(kind: str):
    if kind == "int":
        return small_int()
    if kind == "uint":
        return small_uint()
    if kind == "double":
        return small_double()
    if kind == "bool":
        return st.booleans()
    if kind == "string":
        return small_string()
    if kind == "bytes":
        return st.one_of(st.sampled_from([b"", b"a", b"ab", b"\xff"]), values.binary(4))
    if kind == "null":
        return st.none()
    if kind == "timestamp":
        return st.one_of(st.sampled_from([0, 1234567890 * 10**6, 951782400 * 10**6, -1, 86399999999]), values.timestamp_us())
    if kind == "duration":
        return st.one_of(st.sampled_from([0, 10**6, -(10**6), 3600 * 10**6, 1500000]), values.duration_us())
    if kind.startswith("list<"):
        return st.lists(payload_of(kind[5:-1]), max_size=4)
    if kind.startswith("map<"):
        kk, vk = kind[4:-1].split(",", 1)
        keys = {"int": st.integers(-2, 3), "uint": st.integers(0, 3), "bool": st.booleans(), "string": st.sampled_from(FIELD_NAMES + ["", "zz"])}[kk]
        return st.dictionaries(keys, payload_of(vk), max_size=3)
    raise ValueError(kind)


@st.composite
def environment(draw, kinds: Optional[Dict[str, str]] = None) -> Dict[str, Tuple[str, Any]]:
    kinds = kinds or VAR_KINDS
    return {name: (k, draw(payload_of(k))) for name, k in kinds.items()}


def _vars_of(scope: Dict[str, str], kind: str) -> List[str]:
    return [n for n, k in scope.items() if k == kind]


REGEX_ATOMS = ["a", "b", "c", ".", "[ab]", "[^a]", "[a-c]", "(a|b)", "(ab)", "a*", "b+", "c?", "(a|b)*", "^", "$", "\\\\."]
BAD_PATTERNS = ["(", "a)", "[a", "*a", "a**", "[b-a]", "(?P<n", "a{2,1}"]


@st.composite
def regex_pattern(draw) -> str:
    if draw(st.integers(0, 9)) == 0:
        return draw(st.sampled_from(BAD_PATTERNS))
    parts = draw(st.lists(st.sampled_from(REGEX_ATOMS), min_size=0, max_size=4))
    # anchors only at the ends (keeps the fragment inside what remini accepts)
    body = [p for p in parts if p not in ("^", "$")]
    pat = "".join(body)
    if "^" in parts:
        pat = "^" + pat
    if "$" in parts:
        pat = pat + "$"
    return pat.replace("\\\\.", "\\.")


@st.composite
def typed_expr(draw, T: str, depth: int, scope: Dict[str, str], opts: Optional[dict] = None) -> Tuple:
    """A well-typed IR node of static type T using variables from scope ({name: kind})."""
    opts = opts or {}
    leaf = depth <= 0 or draw(st.integers(0, 9)) < 2
    vs = _vars_of(scope, T)

    def sub(T2: str, sc: Optional[Dict[str, str]] = None) -> Tuple:
        return draw(typed_expr(T2, depth - 1, sc if sc is not None else scope, opts))

    def macro_receiver(K: str) -> Tuple:
        """A list of K or (one time in four) a map keyed by K: macros iterate over the keys of a map."""
        if K in KEYK and draw(st.integers(0, 3)) == 0:
            return sub(f"map<{K},{'int' if K == 'string' else 'string'}>")
        return sub(f"list<{K}>")

    def lit() -> Tuple:
        if T.startswith("list<"):
            inner = T[5:-1]
            n = draw(st.integers(0, 3))
            return ("list", tuple(draw(typed_expr(inner, 0, scope, opts)) for _ in range(n)))
        if T.startswith("map<"):
            kk, vk = T[4:-1].split(",", 1)
            n = draw(st.integers(0, 3))
            return ("map", tuple((draw(typed_expr(kk, 0, scope, opts)), draw(typed_expr(vk, 0, scope, opts))) for _ in range(n)))
        if T == "timestamp":
            us = draw(st.sampled_from([0, 1234567890 * 10**6, 951782400 * 10**6, 1000 * 10**6]))
            from vf import calendar

            return ("call", "timestamp", (("lit", "string", calendar.rfc3339(us)),))
        if T == "duration":
            s = draw(st.sampled_from([0, 1, 60, 3600, -5, 86400]))
            return ("call", "duration", (("lit", "string", f"{s}s"),))
        if T == "type":
            return ("call", "type", (draw(typed_expr(draw(st.sampled_from(SCALAR)), 0, scope, opts)),))
        return ("lit", T, draw(payload_of(T)))

    if leaf:
        if vs and draw(st.booleans()):
            return ("var", draw(st.sampled_from(vs)))
        return lit()

    choices: List[str] = ["leaf", "cond"]
    if T == "bool":
        choices += ["rel", "rel", "eq", "eq", "in_list", "in_map", "strpred", "matches", "has", "and", "or", "not", "all", "exists", "exists_one", "map_index", "list_index"]
    elif T in ("int", "uint"):
        choices += ["arith", "arith", "arith", "conv", "list_index", "map_index"]
        if T == "int":
            choices += ["neg", "size", "size", "select"]
    elif T == "double":
        choices += ["arith", "arith", "neg", "conv"]
    elif T == "string":
        choices += ["concat", "concat", "conv", "list_index", "map_index", "select"]
    elif T == "bytes":
        choices += ["concat", "conv"]
    elif T.startswith("list<"):
        choices += ["concat", "mapmacro", "filter", "list_index", "map_index"]
    elif T == "timestamp":
        choices += ["ts_arith"]
    elif T == "duration":
        choices += ["dur_arith"]
    elif T == "type":
        choices = ["typeof"]
    elif T == "null":
        choices += ["select", "select", "map_index", "list_index"]  # fields / entries that are present with the value null
    choices = [c for c in choices if c not in opts.get("exclude", ())]
    c = draw(st.sampled_from(choices))

    if c == "leaf":
        return ("var", draw(st.sampled_from(vs))) if vs and draw(st.booleans()) else lit()
    if c == "cond":
        return ("cond", sub("bool"), sub(T), sub(T))
    if c == "typeof":
        return ("call", "type", (sub(draw(st.sampled_from(SCALAR + ["list<int>", "map<string,int>", "null", "timestamp", "duration"]))),))
    if c == "rel":
        K = draw(st.sampled_from(["int", "uint", "double", "string", "bytes", "bool", "timestamp", "duration"]))
        return ("bin", draw(st.sampled_from(["<", "<=", ">", ">="])), sub(K), sub(K))
    if c == "eq":
        K = draw(st.sampled_from(SCALAR + ["list<int>", "list<string>", "map<string,int>", "null", "timestamp", "duration", "list<list<int>>"]))
        return ("bin", draw(st.sampled_from(["==", "!="])), sub(K), sub(K))
    if c == "in_list":
        K = draw(st.sampled_from(["int", "uint", "string", "bool"]))
        return ("bin", "in", sub(K), sub(f"list<{K}>"))
    if c == "in_map":
        K, V = draw(st.sampled_from([("string", "int"), ("int", "string"), ("bool", "string"), ("uint", "string")]))
        return ("bin", "in", sub(K), sub(f"map<{K},{V}>"))
    if c == "strpred":
        fn = draw(st.sampled_from(["contains", "startsWith", "endsWith"]))
        return ("method", sub("string"), fn, (sub("string"),))
    if c == "matches":
        pat = ("lit", "string", draw(regex_pattern()))
        recv = sub("string") if draw(st.booleans()) else ("lit", "string", draw(st.text(alphabet="abc.\n", max_size=5) | st.sampled_from(["a\nb", "\n", "ab\n", "\nab", "a\n\nc"])))
        if draw(st.booleans()):
            return ("method", recv, "matches", (pat,))
        return ("call", "matches", (recv, pat))
    if c == "has":
        return ("has", sub(draw(st.sampled_from(["map<string,int>", "map<string,list<int>>", "map<string,null>"]))), draw(st.sampled_from(FIELD_NAMES)))
    if c in ("and", "or"):
        return ("bin", "&&" if c == "and" else "||", sub("bool"), sub("bool"))
    if c == "not":
        return ("un", "!", sub("bool"))
    if c in ("all", "exists", "exists_one"):
        K = draw(st.sampled_from(["int", "string", "bool", "uint"]))
        var = draw(st.sampled_from(["x", "y"]))
        sc = dict(scope)
        sc[var] = K
        return ("macro", macro_receiver(K), c, var, sub("bool", sc))
    if c == "arith":
        op = draw(st.sampled_from(["+", "-", "*", "/", "%"] if T != "double" else ["+", "-", "*", "/"]))
        return ("bin", op, sub(T), sub(T))
    if c == "neg":
        return ("un", "-", sub(T))
    if c == "size":
        K = draw(st.sampled_from(["string", "bytes", "list<int>", "list<string>", "map<string,int>"]))
        a = sub(K)
        return ("call", "size", (a,)) if draw(st.booleans()) else ("method", a, "size", ())
    if c == "conv":
        src = {
            "int": ["uint", "double", "int", "string-int"], "uint": ["int", "double", "uint", "string-int"], "double": ["int", "uint", "double"],
            "string": ["int", "uint", "bytes", "string"], "bytes": ["string", "bytes"],
        }[T]
        S = draw(st.sampled_from(src))
        if S == "string-int":
            return ("call", T, (("lit", "string", str(draw(st.one_of(st.integers(-10, 10), values.int64(), values.uint64())))),))
        return ("call", T, (sub(S),))
    if c == "concat":
        return ("bin", "+", sub(T), sub(T))
    if c == "list_index":
        idx = ("lit", "int", draw(st.one_of(st.integers(-1, 4), st.integers(-1, 4), values.int64()))) if draw(st.booleans()) else sub("int")
        return ("index", sub(f"list<{T}>"), idx)
    if c == "map_index":
        K = draw(st.sampled_from(KEYK))
        m = sub(f"map<{K},{T}>")
        return ("index", m, sub(K))
    if c == "select":
        return ("select", sub(f"map<string,{T}>"), draw(st.sampled_from(FIELD_NAMES)))
    if c == "mapmacro":
        inner = T[5:-1]
        K = draw(st.sampled_from(["int", "string", "bool", "uint"]))
        var = draw(st.sampled_from(["x", "y"]))
        sc = dict(scope)
        sc[var] = K
        return ("macro", macro_receiver(K), "map", var, sub(inner, sc))
    if c == "filter":
        inner = T[5:-1]
        var = draw(st.sampled_from(["x", "y"]))
        sc = dict(scope)
        sc[var] = inner
        return ("macro", macro_receiver(inner) if inner in KEYK else sub(T), "filter", var, sub("bool", sc))
    if c == "ts_arith":
        k = draw(st.integers(0, 2))
        if k == 0:
            return ("bin", "+", sub("timestamp"), sub("duration"))
        if k == 1:
            return ("bin", "+", sub("duration"), sub("timestamp"))
        return ("bin", "-", sub("timestamp"), sub("duration"))
    if c == "dur_arith":
        k = draw(st.integers(0, 2))
        if k == 0:
            return ("bin", "-", sub("timestamp"), sub("timestamp"))
        return ("bin", "+" if k == 1 else "-", sub("duration"), sub("duration"))
    raise ValueError(c)


ROOT_TYPES = ["bool", "bool", "bool", "int", "int", "uint", "double", "string", "bytes", "list<int>", "list<string>", "list<bool>", "map<string,int>",
              "timestamp", "duration", "type", "list<list<int>>", "null"]


@st.composite
def typed_program(draw, max_depth: int = 4, root_types: Optional[List[str]] = None, var_kinds: Optional[Dict[str, str]] = None, opts: Optional[dict] = None):
    from vf import ir

    kinds = var_kinds or VAR_KINDS
    T = draw(st.sampled_from(root_types or ROOT_TYPES))
    node = draw(typed_expr(T, draw(st.integers(1, max_depth)), dict(kinds), opts))
    used = sorted({x[1] for x in ir.walk(node) if x[0] == "var" and x[1] in kinds})
    env = {name: (kinds[name], draw(payload_of(kinds[name]))) for name in used}  # payloads only for the variables the program reads
    return node, T, env


@st.composite
def nested_macro_program(draw, var_kinds: Optional[Dict[str, str]] = None):
    """outer.MACRO(x, ... inner.MACRO(y, body mentioning x and y) ...): the inner body captures the outer iteration variable, the outer
    collection has >= 2 elements (mostly distinct), optionally a third level, a shadowing inner variable, or a map receiver."""
    from vf import ir

    kinds = dict(var_kinds or VAR_KINDS)
    K = draw(st.sampled_from(["int", "int", "string", "uint"]))
    scope = dict(kinds)

    def coll(sc: Dict[str, str], iters: Tuple[str, ...]) -> Tuple:
        k = draw(st.integers(0, 5))
        vs = [v for v in _vars_of(sc, f"list<{K}>") if v in kinds and v not in iters]
        if k == 0 and vs:
            return ("var", draw(st.sampled_from(vs)))
        if k == 1 and iters:
            v = draw(st.sampled_from(iters))
            return ("list", (("var", v), draw(typed_expr(K, 0, sc)), ("var", v)))
        n = draw(st.integers(2, 4))
        return ("list", tuple(("lit", K, p) for p in draw(st.lists(payload_of(K), min_size=n, max_size=n, unique_by=repr))))

    def level(depth: int, sc: Dict[str, str], want_bool: bool, outer_iters: Tuple[str, ...] = ()) -> Tuple:
        var = "xyz"[depth] if draw(st.integers(0, 6)) else draw(st.sampled_from(["x", "y"]))  # now and then an inner variable shadows an outer one
        names = ["all", "exists", "exists_one"] if want_bool else ["map", "map", "filter", "all", "exists", "exists_one"]
        m = draw(st.sampled_from(names))
        c = coll(sc, outer_iters)
        sc2 = dict(sc)
        sc2[var] = K
        iters = tuple(v for v in outer_iters if v != var) + (var,)
        body_bool = m != "map"
        if depth < draw(st.integers(1, 2)):
            body = level(depth + 1, sc2, body_bool, iters)
            if body_bool and draw(st.integers(0, 3)) == 0:
                body = ("bin", draw(st.sampled_from(["&&", "||"])), draw(typed_expr("bool", 1, sc2)), body)
        else:
            outer = [v for v in iters if v != var] or list(iters)
            a, b = ("var", var), ("var", draw(st.sampled_from(outer)))
            if draw(st.booleans()):
                a, b = b, a
            k = draw(st.integers(0, 4))
            if body_bool:
                body = (("bin", draw(st.sampled_from(["==", "!=", "<", "<=", ">", ">="])), a, b) if k < 3 else
                        ("bin", "in", a, ("list", (b, draw(typed_expr(K, 0, sc2))))) if k == 3 else draw(typed_expr("bool", 2, sc2)))
            else:
                body = (("list", (a, b)) if k < 2 else ("bin", "+", a, b) if k == 2 and K != "uint" else ("cond", ("bin", "==", a, b), a, draw(typed_expr(K, 1, sc2))))
        return ("macro", c, m, var, body)

    node = level(0, scope, False)
    if draw(st.integers(0, 4)) == 0:
        node = ("bin", "==", node, node)
    used = sorted({x[1] for x in ir.walk(node) if x[0] == "var" and x[1] in kinds})
    env = {name: (kinds[name], draw(payload_of(kinds[name]))) for name in used}
    return node, "dyn", env


def json_document(max_leaves: int = 12):
    keys = st.sampled_from(FIELD_NAMES + ["zz", "x-y", ""])
    leaf = st.one_of(st.none(), st.none(), st.booleans(), st.integers(-5, 5), small_int(), st.sampled_from(["", "a", "ab", "zz"]), small_string(),
                     st.sampled_from([0.0, 1.5, -2.0]))
    return st.dictionaries(keys, st.recursive(leaf, lambda ch: st.one_of(st.lists(ch, max_size=3), st.dictionaries(keys, ch, max_size=3)), max_leaves=max_leaves),
                           min_size=1, max_size=4)


@st.composite
def document_program(draw):
    """A JSON-like document bound to `doc` and an expression navigating it along a path drawn FROM the document (so that selections hit: fields
    present with null / false / 0 / '' / [] / {} values included), or a near miss (absent key, index out of range), used in a way that fits the
    kind of value found there."""
    import re as _re

    doc = draw(json_document())
    e: Tuple = ("var", "doc")
    v: Any = doc
    parent: Optional[Tuple] = None  # (expression of the enclosing map, key) when the last step selected a map entry
    missing = False
    for _ in range(draw(st.integers(1, 4))):
        parent = None
        if isinstance(v, dict):
            miss = not v or draw(st.integers(0, 7)) == 0
            k = draw(st.sampled_from(["nope", "a", "q"])) if miss else draw(st.sampled_from(sorted(v)))
            ident = bool(_re.fullmatch(r"[a-z_][a-z0-9_]*", k))
            parent = (e, k) if ident else None
            e = ("select", e, k) if ident and draw(st.integers(0, 3)) else ("index", e, ("lit", "string", k))
            if k not in v:
                missing = True
                break
            v = v[k]
        elif isinstance(v, list):
            miss = not v or draw(st.integers(0, 7)) == 0
            i = draw(st.sampled_from([len(v), -1, len(v) + 3])) if miss else draw(st.integers(0, len(v) - 1))
            e = ("index", e, ("lit", "int", i))
            if not (0 <= i < len(v)):
                missing = True
                break
            v = v[i]
        else:
            break
    null = ("lit", "null", None)
    uses: List[Tuple] = [e, ("bin", "==", e, null), ("bin", "!=", e, null), ("list", (e,)), ("map", ((("lit", "string", "k"), e),)),
                         ("cond", ("bin", "==", e, null), ("lit", "string", "null"), ("lit", "string", "set"))]
    if parent is not None:
        h = ("has", parent[0], parent[1])
        uses += [h, h, ("cond", h, e, ("lit", "string", "absent")), ("bin", "&&", h, ("bin", "!=", e, null)), ("bin", "||", ("un", "!", h), ("bin", "==", e, null)),
                 ("bin", "in", ("lit", "string", parent[1]), parent[0]),
                 ("macro", ("list", (parent[0],)), draw(st.sampled_from(["exists", "all", "filter", "map"])), "d", ("bin", "==", ("select", ("var", "d"), parent[1]), null))]
    if not missing:
        if isinstance(v, bool):
            uses += [("un", "!", e), ("bin", "&&", e, ("lit", "bool", True)), ("cond", e, ("lit", "int", 1), ("lit", "int", 2))]
        elif isinstance(v, int):
            uses += [("bin", "+", e, ("lit", "int", 1)), ("bin", "<", e, ("lit", "int", 0)), ("bin", "==", e, ("lit", "int", v)), ("bin", "in", e, ("list", (("lit", "int", 0), ("lit", "int", v))))]
        elif isinstance(v, float):
            uses += [("bin", "+", e, ("lit", "double", 1.0)), ("bin", "<", e, ("lit", "double", 0.0))]
        elif isinstance(v, str):
            uses += [("bin", "+", e, ("lit", "string", "x")), ("call", "size", (e,)), ("method", e, "startsWith", (("lit", "string", "a"),)), ("bin", "==", e, ("lit", "string", v))]
        elif isinstance(v, list):
            uses += [("call", "size", (e,)), ("bin", "+", e, e), ("bin", "==", e, e), ("macro", e, "map", "x", ("list", (("var", "x"),))),
                     ("macro", e, draw(st.sampled_from(["exists", "all", "exists_one", "filter"])), "x", ("bin", "==", ("var", "x"), null))]
        elif isinstance(v, dict):
            uses += [("call", "size", (e,)), ("bin", "==", e, e), ("macro", e, "map", "k", ("var", "k")), ("macro", e, "filter", "k", ("lit", "bool", True)),
                     ("macro", e, draw(st.sampled_from(["all", "exists", "exists_one", "filter"])), "k", ("bin", "!=", ("var", "k"), ("lit", "string", draw(st.sampled_from(["", "a", "zz"]))))),
                     ("macro", e, draw(st.sampled_from(["all", "exists", "filter", "map"])), "k", ("bin", "==", ("index", e, ("var", "k")), null))]
    node = draw(st.sampled_from(uses))
    return node, "dyn", {"doc": ("json", doc)}


# ---------------------------------------------------------------------------------------------------
# Grammar-directed (ill-typed allowed)

ALL_LEAF_KINDS = ["int", "uint", "double", "bool", "string", "bytes", "null"]
FUNCS1 = ["size", "int", "uint", "double", "string", "bytes", "bool", "type", "duration", "timestamp", "dyn", "nofunc", "list", "map", "matches", "contains",
          "startsWith", "endsWith", "getHours", "null_type", "google.protobuf.Timestamp", "google.protobuf.Duration"]
# texts that mean something to one built-in or another: zone names (incl. names of directories and special files of the zone database), offsets, times, numbers
SPECIAL_TEXTS = ["UTC", "Z", "America", "America/New_York", "Etc", "Etc/UTC", "US", "posix", "posix/UTC", "right", "localtime", "posixrules", "zone.tab", "tzdata.zi", "..", "../UTC",
                 "/etc/passwd", "Europe/", "+01:00", "-00:30", "+25:00", "01:00", "+0100", "EST", "2009-02-13T23:31:30Z", "2009-02-13T23:31:30+01:00", "0001-01-01T00:00:00Z",
                 "9999-12-31T23:59:59.999999999Z", "10000-01-01T00:00:00Z", "90s", "1h1m1s", "-1.5h", "1d", "1e3s", "inf", "nan", "-0", "0x10", "1_0", " 1", "true", "TRUE", "1.0", "1e5",
                 "9223372036854775808", "(", "a{2,1}", "[", "\\"]
MSG_NAMES = ["google.protobuf.Int64Value", "google.protobuf.UInt64Value", "google.protobuf.DoubleValue", "google.protobuf.BoolValue", "google.protobuf.StringValue",
             "google.protobuf.BytesValue", "google.protobuf.Int32Value", "google.protobuf.Struct", "google.protobuf.Value", "google.protobuf.ListValue", "google.protobuf.Any",
             "google.protobuf.Timestamp", "google.protobuf.Duration", "google.protobuf.Empty", "undefined.Message", "TestAllTypes", "int", "x",
             "getSeconds", "getHours", "size", "matches", "string", "type", "bytes", "timestamp", "duration", "list", "map", "bool", "double", "uint"]
MSG_FIELDS = ["value", "value", "value", "valu", "seconds", "nanos", "fields", "values", "a", "b", "null_value", "number_value", "string_value", "single_int64"]
ESCAPES = ["\\U00000041", "\\U0001F431", "\\U00110000", "\\U0000D800", "\\u0041", "\\ud800", "\\u00e9", "\\x41", "\\xff", "\\X41", "\\101", "\\377", "\\777", "\\400", "\\8", "\\q",
           "\\n", "\\a", "\\`", "\\?", "\\\\", "\\'", '\\"', "\\u12", "\\U1234", "\\x4", "\\1", "\\12", "a", "é", "\U0001f431", " ", "\\0", "\\000", "\\x00"]


@st.composite
def odd_literal(draw) -> Tuple:
    """A string / bytes literal in any prefix and quote style whose body is a sequence of escapes of every form - valid, invalid for the literal's kind,
    out of range, truncated. The compile step must accept it or reject it with a parse error; evaluation must give a value or a CEL error."""
    prefix = draw(st.sampled_from(["", "", "b", "b", "B", "r", "R", "br", "bR", "Br", "BR"]))
    q = draw(st.sampled_from(["'", '"', "'''", '"""']))
    body = "".join(draw(st.lists(st.sampled_from(ESCAPES), min_size=0, max_size=4)))
    if q in body and len(q) == 1 and "\\" + q not in body:
        body = body.replace(q, "")
    return ("raw", f"{prefix}{q}{body}{q}", 8)
METHODS0 = ["size", "getFullYear", "getMonth", "getDate", "getDayOfMonth", "getDayOfWeek", "getDayOfYear", "getHours", "getMinutes", "getSeconds", "getMilliseconds"]
METHODS1 = ["contains", "startsWith", "endsWith", "matches", "getHours", "nomethod"]
BINOPS = ["+", "-", "*", "/", "%", "==", "!=", "<", "<=", ">", ">=", "in", "&&", "||"]


@st.composite
def _call_node(draw, sub) -> Tuple:
    n = draw(st.integers(0, 9))
    if n < 7:
        return ("call", draw(st.sampled_from(FUNCS1)), (sub(),))
    if n == 7:
        return ("call", draw(st.sampled_from(FUNCS1 + ["has"])), ())  # every function (and the function-like macro) with no argument at all
    if n == 8:
        return ("call", draw(st.sampled_from(FUNCS1)), (sub(), sub()))
    return ("call", draw(st.sampled_from(FUNCS1)), (sub(), sub(), sub()))


@st.composite
def any_expr(draw, depth: int, names: List[str], macro_vars: Tuple[str, ...] = ()) -> Tuple:
    """Any expression derivable from the grammar: every leaf kind in every operand position."""
    if depth <= 0 or draw(st.integers(0, 9)) < 2:
        k = draw(st.integers(0, 11))
        if k < 5:
            j = draw(st.integers(0, 11))
            if j == 0:
                return ("lit", "string", draw(st.sampled_from(SPECIAL_TEXTS)))
            if j == 1:
                return draw(odd_literal())
            kind = draw(st.sampled_from(ALL_LEAF_KINDS))
            return ("lit", kind, draw(payload_of(kind)))
        if k < 9 and (names or macro_vars):
            return ("var", draw(st.sampled_from(list(names) + list(macro_vars))))
        if k == 9:
            return ("var", draw(st.sampled_from(["undefined_name", "zz"])))
        if k == 10:
            return ("list", ())
        return ("map", ())

    def sub(mv: Tuple[str, ...] = macro_vars) -> Tuple:
        return draw(any_expr(depth - 1, names, mv))

    c = draw(st.sampled_from(["bin", "bin", "bin", "un", "cond", "index", "select", "call", "call", "method", "method", "macro", "macro", "list", "map", "has", "paren", "dotvar", "msg", "tzmethod"]))
    if c == "tzmethod":
        # a calendar accessor applied to a timestamp-ish receiver with a zone-ish argument (names of directories / special files of the zone database included)
        recv = draw(st.sampled_from([("var", n) for n in names if n in ("t1", "t2")] + [("call", "timestamp", (("lit", "string", "2009-02-13T23:31:30Z"),)), ("call", "timestamp", (("lit", "int", 0),))]))
        arg = ("lit", "string", draw(st.sampled_from(SPECIAL_TEXTS))) if draw(st.integers(0, 4)) else sub()
        return ("method", recv, draw(st.sampled_from(METHODS0[1:])), (arg,))
    if c == "msg":
        name = draw(st.sampled_from(MSG_NAMES))
        parts = name.split(".")
        head: Tuple = ("var", parts[0])
        for part in parts[1:]:
            head = ("select", head, part)
        nf = draw(st.integers(0, 3))
        return ("msg", head, tuple((draw(st.sampled_from(MSG_FIELDS)), sub()) for _ in range(nf)))
    if c == "bin":
        return ("bin", draw(st.sampled_from(BINOPS)), sub(), sub())
    if c == "un":
        return ("un", draw(st.sampled_from(["!", "-"])), sub())
    if c == "cond":
        return ("cond", sub(), sub(), sub())
    if c == "index":
        if draw(st.integers(0, 2)) == 0:
            # a container indexed by a boundary scalar of any kind
            kind = draw(st.sampled_from(["int", "uint", "double", "double", "string", "bool", "null", "bytes"]))
            recv = draw(st.sampled_from([("list", (("lit", "int", 7), ("lit", "int", 8))), ("map", ((("lit", "int", 0), ("lit", "int", 1)),)), ("lit", "string", "ab")])) if draw(st.booleans()) else sub()
            return ("index", recv, ("lit", kind, draw(payload_of(kind))))
        return ("index", sub(), sub())
    if c == "select":
        return ("select", sub(), draw(st.sampled_from(FIELD_NAMES + ["size", "x"])))
    if c == "has":
        return ("has", sub(), draw(st.sampled_from(FIELD_NAMES)))
    if c == "call":
        node = draw(_call_node(sub))
        if "." in node[1]:  # a dotted function name is, to the grammar, a method of the name before the last dot
            parts = node[1].split(".")
            recv: Tuple = ("var", parts[0])
            for part in parts[1:-1]:
                recv = ("select", recv, part)
            return ("method", recv, parts[-1], node[2])
        return node
    if c == "method":
        if draw(st.integers(0, 7)) == 0:
            # a macro name with the wrong number of arguments: CEL treats it as an (unknown) method call
            n = draw(st.sampled_from([0, 1, 3]))
            return ("method", sub(), draw(st.sampled_from(["map", "filter", "all", "exists", "exists_one"])), tuple(("var", "x") if i == 0 else sub() for i in range(n)))
        k = draw(st.integers(0, 8))
        if k < 4:
            return ("method", sub(), draw(st.sampled_from(METHODS0)), ())
        if k < 8:
            return ("method", sub(), draw(st.sampled_from(METHODS1 + METHODS0)), (sub(),))
        # (two arguments after a macro name would be the macro with a non-identifier variable: out of domain)
        return ("method", sub(), draw(st.sampled_from([m for m in METHODS1 + METHODS0 + FUNCS1 if m not in ("map", "filter", "all", "exists", "exists_one") and "." not in m])), (sub(), sub()))
    if c == "macro":
        var = draw(st.sampled_from(["x", "y", "i"]))
        return ("macro", sub(), draw(st.sampled_from(["map", "filter", "all", "exists", "exists_one"])), var, sub(macro_vars + (var,)))
    if c == "list":
        return ("list", tuple(sub() for _ in range(draw(st.integers(1, 3)))))
    if c == "map":
        return ("map", tuple((sub(), sub()) for _ in range(draw(st.integers(1, 2)))))
    if c == "paren":
        return ("paren", sub())
    return ("dotvar", draw(st.sampled_from(list(names) + ["undefined_name"]))) if names else sub()


@st.composite
def any_program(draw, max_depth: int = 4, var_kinds: Optional[Dict[str, str]] = None):
    from vf import ir

    kinds = var_kinds or VAR_KINDS
    node = draw(any_expr(draw(st.integers(1, max_depth)), sorted(kinds)))
    used = sorted({x[1] for x in ir.walk(node) if x[0] in ("var", "dotvar") and x[1] in kinds})
    env = {name: (kinds[name], draw(payload_of(kinds[name]))) for name in used}
    # leave some variables unbound on purpose
    if used and draw(st.integers(0, 5)) == 0:
        env.pop(draw(st.sampled_from(used)))
    return node, env


def bind_env(env: Dict[str, Tuple[str, Any]]) -> Dict[str, Any]:
    """Activation of celpy values for an env description."""
    return {name: values.to_cel(kind, payload) for name, (kind, payload) in env.items()}


def ref_env(env: Dict[str, Tuple[str, Any]]) -> Dict[str, Tuple]:
    from vf import refcel

    return {name: refcel.from_payload(kind, payload) for name, (kind, payload) in env.items()}
