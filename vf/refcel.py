"""Independent reference evaluator for the CEL fragment the generators emit. Shares no code with celpy.

Values are tagged tuples:
  ("int", n) ("uint", n) ("double", f) ("bool", b) ("string", s) ("bytes", b) ("null",)
  ("list", [v...]) ("map", [(k, v)...])  ("timestamp", us) ("duration", us) ("type", name)
ERR is the single error outcome (the properties do not distinguish errors).
"""

from __future__ import annotations

import math
from typing import Any, Callable, Dict, List, Optional, Tuple

from vf import remini

I_MIN, I_MAX, U_MAX = -(2**63), 2**63 - 1, 2**64 - 1
TS_MIN = -62135596800 * 10**6
TS_MAX = 253402300799 * 10**6 + 999999
DUR_MAX = 315_576_000_000 * 10**6


class Unspecified(Exception):
    """The reference model does not decide this case (not an error: the check skips it)."""


class _Err:
    def __repr__(self) -> str:
        return "ERR"


ERR = _Err()


def is_err(v: Any) -> bool:
    return v is ERR


def from_payload(kind: str, p: Any) -> Tuple:
    """(static kind string like 'list<int>', plain payload) -> tagged value."""
    if kind.startswith("list<"):
        inner = kind[5:-1]
        return ("list", [from_payload(inner, x) for x in p])
    if kind.startswith("map<"):
        kk, vk = kind[4:-1].split(",", 1)
        return ("map", [(from_payload(kk, k), from_payload(vk, v)) for k, v in p.items()])
    if kind == "null":
        return ("null",)
    if kind == "json":
        if p is None:
            return ("null",)
        if isinstance(p, bool):
            return ("bool", p)
        if isinstance(p, int):
            return ("int", p)
        if isinstance(p, float):
            return ("double", p)
        if isinstance(p, str):
            return ("string", p)
        if isinstance(p, list):
            return ("list", [from_payload("json", x) for x in p])
        return ("map", [(("string", k), from_payload("json", v)) for k, v in p.items()])
    return (kind, p)


def to_canon(v: Any) -> Any:
    """Tagged value -> the canonical form used by vf.outcome.canon."""
    from vf import outcome

    if v is ERR:
        return ("error",)
    t = v[0]
    if t == "double":
        return ("double", outcome.dbl(v[1]))
    if t == "bytes":
        return ("bytes", bytes(v[1]).hex())
    if t == "list":
        return ("list", tuple(to_canon(x) for x in v[1]))
    if t == "map":
        items = [(to_canon(k), to_canon(x)) for k, x in v[1]]
        items.sort(key=repr)
        return ("map", tuple(items))
    return v


def type_name(v: Tuple) -> str:
    return {"null": "null_type"}.get(v[0], v[0])


def _eq(a: Tuple, b: Tuple) -> Any:
    """CEL equality for same-kind values. Across kinds (null against a non-null value included) the properties say nothing ("for values of the
    same CEL type"), and CEL versions differ (no such overload / false): Unspecified, so such cases are skipped and counted, never asserted."""
    if a[0] != b[0]:
        raise Unspecified("equality across kinds")
    t = a[0]
    if t == "null":
        return True
    if t == "list":
        if len(a[1]) != len(b[1]):
            return False
        res: Any = True
        for x, y in zip(a[1], b[1]):
            e = _eq(x, y)
            if e is False:
                return False
            if e is ERR:
                res = ERR
        return res
    if t == "map":
        ka = {_key(k): v for k, v in a[1]}
        kb = {_key(k): v for k, v in b[1]}
        if ka.keys() != kb.keys():
            return False
        res = True
        for k in ka:
            e = _eq(ka[k], kb[k])
            if e is False:
                return False
            if e is ERR:
                res = ERR
        return res
    return a[1] == b[1]


def _key(k: Tuple) -> Tuple:
    return (k[0], k[1]) if len(k) > 1 else k


ORDERED = {"int", "uint", "double", "string", "bytes", "bool", "timestamp", "duration"}


def _arith(op: str, a: Tuple, b: Tuple) -> Any:
    ta, tb = a[0], b[0]
    if ta == tb and ta in ("int", "uint"):
        lo, hi = (I_MIN, I_MAX) if ta == "int" else (0, U_MAX)
        x, y = a[1], b[1]
        if op == "+":
            r = x + y
        elif op == "-":
            r = x - y
        elif op == "*":
            r = x * y
        else:
            if y == 0:
                return ERR
            q = abs(x) // abs(y)
            q = q if (x < 0) == (y < 0) else -q
            r = q if op == "/" else x - y * q
        return (ta, r) if lo <= r <= hi else ERR
    if ta == tb == "double":
        x, y = a[1], b[1]
        try:
            if op == "+":
                return ("double", x + y)
            if op == "-":
                return ("double", x - y)
            if op == "*":
                return ("double", x * y)
            if op == "/":
                if y == 0:
                    if x == 0 or x != x:
                        return ("double", math.nan)
                    return ("double", math.copysign(math.inf, x) * math.copysign(1.0, y))
                return ("double", x / y)
        except OverflowError:  # pragma: no cover
            return ERR
        return ERR  # % on doubles
    if op == "+":
        if ta == tb == "string":
            return ("string", a[1] + b[1])
        if ta == tb == "bytes":
            return ("bytes", a[1] + b[1])
        if ta == tb == "list":
            return ("list", a[1] + b[1])
        if ta == "timestamp" and tb == "duration" or ta == "duration" and tb == "timestamp":
            r = a[1] + b[1]
            return ("timestamp", r) if TS_MIN <= r <= TS_MAX else ERR
        if ta == tb == "duration":
            r = a[1] + b[1]
            return ("duration", r) if -DUR_MAX <= r <= DUR_MAX else ERR
    if op == "-":
        if ta == "timestamp" and tb == "duration":
            r = a[1] - b[1]
            return ("timestamp", r) if TS_MIN <= r <= TS_MAX else ERR
        if ta == tb == "timestamp":
            r = a[1] - b[1]
            return ("duration", r) if -DUR_MAX <= r <= DUR_MAX else ERR
        if ta == tb == "duration":
            r = a[1] - b[1]
            return ("duration", r) if -DUR_MAX <= r <= DUR_MAX else ERR
    return ERR


class Evaluator:
    """Evaluate an IR node in an environment {name: tagged value}. `funcs`: host functions name -> callable(list of tagged) -> tagged|ERR."""

    def __init__(self, env: Dict[str, Tuple], funcs: Optional[Dict[str, Callable]] = None, on_call: Optional[Callable] = None) -> None:
        self.env = env
        self.funcs = funcs or {}
        self.on_call = on_call

    def ev(self, n: Tuple, scope: Optional[Dict[str, Tuple]] = None) -> Any:
        scope = scope if scope is not None else self.env
        t = n[0]
        if t == "lit":
            return from_payload(n[1], n[2])
        if t == "paren":
            return self.ev(n[1], scope)
        if t == "var":
            return scope.get(n[1], ERR)
        if t == "un":
            a = self.ev(n[2], scope)
            if a is ERR:
                return ERR
            if n[1] == "!":
                return ("bool", not a[1]) if a[0] == "bool" else ERR
            if a[0] == "int":
                return ("int", -a[1]) if -a[1] <= I_MAX else ERR
            if a[0] == "double":
                return ("double", -a[1])
            return ERR
        if t == "bin":
            op = n[1]
            if op in ("&&", "||"):
                a = self.ev(n[2], scope)
                b = self.ev(n[3], scope)
                dec = op == "||"
                av = a[1] if (a is not ERR and a[0] == "bool") else None
                bv = b[1] if (b is not ERR and b[0] == "bool") else None
                if av is dec or bv is dec:
                    return ("bool", dec)
                if av is not None and bv is not None:
                    return ("bool", not dec)
                return ERR
            a = self.ev(n[2], scope)
            b = self.ev(n[3], scope)
            if a is ERR or b is ERR:
                return ERR
            if op in ("+", "-", "*", "/", "%"):
                return _arith(op, a, b)
            if op in ("==", "!="):
                e = _eq(a, b)
                if e is ERR:
                    return ERR
                return ("bool", e if op == "==" else not e)
            if op in ("<", "<=", ">", ">="):
                if a[0] != b[0] or a[0] not in ORDERED:
                    return ERR
                x, y = a[1], b[1]
                return ("bool", {"<": x < y, "<=": x <= y, ">": x > y, ">=": x >= y}[op])
            if op == "in":
                if b[0] == "list":
                    res: Any = False
                    for item in b[1]:
                        e = _eq(a, item)  # across kinds: Unspecified (x in l iff l.exists(y, y == x), and y == x is unspecified there)
                        if e is True:
                            return ("bool", True)
                        if e is ERR:
                            res = ERR
                    return ERR if res is ERR else ("bool", False)
                if b[0] == "map":
                    for k, _ in b[1]:
                        if k[0] == a[0] and k[1] == a[1]:
                            return ("bool", True)
                    return ("bool", False)
                return ERR
            return ERR
        if t == "cond":
            c = self.ev(n[1], scope)
            if c is ERR or c[0] != "bool":
                return ERR
            return self.ev(n[2] if c[1] else n[3], scope)
        if t == "list":
            out = []
            for x in n[1]:
                v = self.ev(x, scope)
                if v is ERR:
                    return ERR
                out.append(v)
            return ("list", out)
        if t == "map":
            out2: List[Tuple] = []
            seen = set()
            for k, x in n[1]:
                kv = self.ev(k, scope)
                vv = self.ev(x, scope)
                if kv is ERR or vv is ERR:
                    return ERR
                if kv[0] not in ("int", "uint", "bool", "string"):
                    return ERR
                if _key(kv) in seen:
                    return ERR  # duplicate key
                seen.add(_key(kv))
                out2.append((kv, vv))
            return ("map", out2)
        if t == "index":
            a = self.ev(n[1], scope)
            i = self.ev(n[2], scope)
            if a is ERR or i is ERR:
                return ERR
            if a[0] == "list":
                if i[0] != "int":
                    return ERR
                if not (0 <= i[1] < len(a[1])):
                    return ERR
                return a[1][i[1]]
            if a[0] == "map":
                for k, v in a[1]:
                    if k[0] == i[0] and k[1] == i[1]:
                        return v
                return ERR
            return ERR
        if t == "select":
            a = self.ev(n[1], scope)
            if a is ERR or a[0] != "map":
                return ERR
            for k, v in a[1]:
                if k == ("string", n[2]):
                    return v
            return ERR
        if t == "has":
            a = self.ev(n[1], scope)
            if a is ERR or a[0] != "map":
                # CEL: an error. This library documents has() as mapping any error to false; the listed properties
                # (C03) speak of has() absorbing errors, so the reference does not decide.
                raise Unspecified("has() of an error or non-map")
            return ("bool", any(k == ("string", n[2]) for k, _ in a[1]))
        if t == "macro":
            recv = self.ev(n[1], scope)
            if recv is ERR:
                return ERR
            if recv[0] == "list":
                items = recv[1]
            elif recv[0] == "map":
                items = [k for k, _ in recv[1]]
            else:
                return ERR
            name, var, body = n[2], n[3], n[4]
            results = []
            for it in items:
                sub = dict(scope)
                sub[var] = it
                results.append(self.ev(body, sub))
            if name == "map":
                return ERR if any(r is ERR for r in results) else ("list", results)
            bools = [None if (r is ERR or r[0] != "bool") else r[1] for r in results]
            if name == "filter":
                if any(b is None for b in bools):
                    return ERR
                return ("list", [it for it, b in zip(items, bools) if b])
            if name == "exists_one":
                if any(b is None for b in bools):
                    return ERR
                return ("bool", sum(1 for b in bools if b) == 1)
            if name == "all":
                if any(b is False for b in bools):
                    return ("bool", False)
                return ERR if any(b is None for b in bools) else ("bool", True)
            if name == "exists":
                if any(b is True for b in bools):
                    return ("bool", True)
                return ERR if any(b is None for b in bools) else ("bool", False)
            return ERR
        if t in ("call", "method"):
            if t == "call":
                name, argn = n[1], list(n[2])
            else:
                name, argn = n[2], [n[1]] + list(n[3])
            args = []
            for x in argn:
                v = self.ev(x, scope)
                if v is ERR:
                    return ERR
                args.append(v)
            if name in self.funcs:
                if self.on_call:
                    self.on_call(name, args)
                return self.funcs[name](args)
            return builtin(name, args)
        raise ValueError(n)


def builtin(name: str, a: List[Tuple]) -> Any:
    k = [x[0] for x in a]
    if name == "size" and len(a) == 1:
        if k[0] in ("string", "bytes", "list", "map"):
            return ("int", len(a[0][1]))
        return ERR
    if name in ("contains", "startsWith", "endsWith") and k == ["string", "string"]:
        s, t = a[0][1], a[1][1]
        return ("bool", {"contains": t in s, "startsWith": s.startswith(t), "endsWith": s.endswith(t)}[name])
    if name == "matches" and k == ["string", "string"]:
        try:
            return ("bool", remini.search(a[1][1], a[0][1]))
        except remini.BadPattern:
            return ERR
    if name == "type" and len(a) == 1:
        return ("type", type_name(a[0]))
    if name == "int" and len(a) == 1:
        v = a[0]
        if k[0] == "int":
            return v
        if k[0] == "uint":
            return ("int", v[1]) if v[1] <= I_MAX else ERR
        if k[0] == "double":
            if v[1] != v[1] or math.isinf(v[1]):
                return ERR
            r = math.trunc(v[1])
            return ("int", r) if I_MIN <= r <= I_MAX else ERR
        if k[0] == "string":
            return _parse_int(v[1], I_MIN, I_MAX, "int")
        return ERR
    if name == "uint" and len(a) == 1:
        v = a[0]
        if k[0] == "uint":
            return v
        if k[0] == "int":
            return ("uint", v[1]) if v[1] >= 0 else ERR
        if k[0] == "double":
            if v[1] != v[1] or math.isinf(v[1]):
                return ERR
            if -1 < v[1] < 0:
                raise Unspecified('uint of double in (-1, 0)')
            r = math.trunc(v[1])
            return ("uint", r) if 0 <= r <= U_MAX else ERR
        if k[0] == "string":
            return _parse_int(v[1], 0, U_MAX, "uint")
        return ERR
    if name == "double" and len(a) == 1:
        v = a[0]
        if k[0] == "double":
            return v
        if k[0] in ("int", "uint"):
            return ("double", float(v[1]))
        raise Unspecified('double(string)')
    if name == "string" and len(a) == 1:
        v = a[0]
        if k[0] == "string":
            return v
        if k[0] in ("int", "uint"):
            return ("string", str(v[1]))
        if k[0] == "bytes":
            try:
                return ("string", v[1].decode("utf-8"))
            except UnicodeDecodeError:
                return ERR
        raise Unspecified('string() of ' + k[0])
    if name == "bytes" and len(a) == 1:
        if k[0] == "bytes":
            return a[0]
        if k[0] == "string":
            return ("bytes", a[0][1].encode("utf-8"))
        return ERR
    if name == "bool" and len(a) == 1 and k[0] == "bool":
        return a[0]
    raise Unspecified(f'function {name}({k})')


def _parse_int(s: str, lo: int, hi: int, kind: str) -> Any:
    body = s[1:] if s[:1] == "-" else s
    if not body or not all(c in "0123456789" for c in body):
        if s.strip() != s or "_" in s or s[:1] == "+" or "x" in s.lower():
            raise Unspecified("lenient integer text")
        return ERR
    v = int(s)
    return (kind, v) if lo <= v <= hi else ERR
