"""Small expression IR: tuples. render() to CEL text with minimal / full / redundant parentheses.

Nodes
  ("lit", kind, payload)            kind in int uint double bool string bytes null; payload plain Python
  ("raw", text, level)              verbatim source text with a given precedence level (used for special literals)
  ("var", name)
  ("un", op, a)                     op in "!" "-"
  ("bin", op, a, b)                 op in * / % + - < <= > >= == != in && ||
  ("cond", c, x, y)
  ("index", a, i)
  ("select", a, field)
  ("call", name, (args...))
  ("method", recv, name, (args...))
  ("macro", recv, name, var, body)
  ("list", (elems...))
  ("map", ((k, v)...))
  ("has", a, field)                 has(a.field)
  ("dotvar", name)                  .name (root scope)
  ("paren", a)                      explicit redundant parentheses
"""

from __future__ import annotations

import re

import math
from typing import Any, List, Tuple

from vf import literals

LEVEL = {"||": 2, "&&": 3, "<": 4, "<=": 4, ">": 4, ">=": 4, "==": 4, "!=": 4, "in": 4, "+": 5, "-": 5, "*": 6, "/": 6, "%": 6}
COND, UNARY, MEMBER = 1, 7, 8


def level(n: Tuple) -> int:
    t = n[0]
    if t == "bin":
        return LEVEL[n[1]]
    if t == "cond":
        return COND
    if t == "un":
        return UNARY
    if t == "raw":
        return n[2]
    return MEMBER


def lit_text(kind: str, v: Any) -> str:
    if kind == "int":
        return str(v)
    if kind == "uint":
        return f"{v}u"
    if kind == "double":
        if v != v or math.isinf(v):
            raise ValueError("no literal for non-finite double")
        r = repr(float(v))
        return r if ("." in r or "e" in r) else r + ".0"
    if kind == "bool":
        return "true" if v else "false"
    if kind == "null":
        return "null"
    if kind == "string":
        return literals.conservative_string(v)
    if kind == "bytes":
        return literals.conservative_bytes(v)
    raise ValueError(kind)


def _needs_recv_parens(n: Tuple) -> bool:
    """Numeric literals cannot be followed directly by '.': `1.f` lexes as a float. Even int literals are instead written with a blank
    (`2 .f`, the other spelling the grammar admits), so that both spellings occur."""
    if n[0] == "lit" and n[1] == "int" and isinstance(n[2], int) and n[2] % 2 == 0:
        return False
    return n[0] == "lit" and n[1] in ("int", "uint", "double")


def _recv_gap(n: Tuple) -> str:
    if n[0] == "raw" and re.fullmatch(r"-?\d+", n[1]):
        return " "  # verbatim integer text (from a parsed tree): the only spelling that parses is the one with a blank
    return " " if n[0] == "lit" and n[1] == "int" and isinstance(n[2], int) and n[2] % 2 == 0 else ""


def render(n: Tuple, mode: str = "min") -> str:
    """mode: 'min' minimal parentheses per the CEL precedence table; 'full' parenthesise every operator operand."""

    def wrap(child: Tuple, need: bool) -> str:
        s = render(child, mode)
        if mode == "full":
            need = need or level(child) < MEMBER
        return f"({s})" if need else s

    t = n[0]
    if t == "lit":
        return lit_text(n[1], n[2])
    if t == "raw":
        return n[1]
    if t == "var":
        return n[1]
    if t == "dotvar":
        return "." + n[1]
    if t == "paren":
        return f"({render(n[1], mode)})"
    if t == "un":
        a = n[2]
        s = wrap(a, level(a) < UNARY)
        if n[1] == "-" and s[:1].isdigit() and a[0] not in ("lit", "raw"):
            s = f"({s})"  # '-4 .f' would be read as the literal -4 followed by .f
        # '--x' / '- -1': keep a unary minus apart from a following '-' (literal sign or another unary minus)
        sep = " " if (n[1] == "-" and s.startswith("-")) else ""
        return f"{n[1]}{sep}{s}"
    if t == "bin":
        op, a, b = n[1], n[2], n[3]
        L = LEVEL[op]
        return f"{wrap(a, level(a) < L)} {op} {wrap(b, level(b) <= L)}"
    if t == "cond":
        c, x, y = n[1], n[2], n[3]
        return f"{wrap(c, level(c) < 2)} ? {wrap(x, level(x) < 2)} : {wrap(y, False)}"
    if t == "index":
        a, i = n[1], n[2]
        return f"{wrap(a, level(a) < MEMBER or _needs_recv_parens(a))}[{render(i, mode)}]"
    if t == "select":
        a = n[1]
        return f"{wrap(a, level(a) < MEMBER or _needs_recv_parens(a))}{_recv_gap(a)}.{n[2]}"
    if t == "has":
        a = n[1]
        return f"has({wrap(a, level(a) < MEMBER or _needs_recv_parens(a))}{_recv_gap(a)}.{n[2]})"
    if t == "call":
        return f"{n[1]}({', '.join(render(x, mode) for x in n[2])})"
    if t == "method":
        a = n[1]
        return f"{wrap(a, level(a) < MEMBER or _needs_recv_parens(a))}{_recv_gap(a)}.{n[2]}({', '.join(render(x, mode) for x in n[3])})"
    if t == "macro":
        a = n[1]
        return f"{wrap(a, level(a) < MEMBER or _needs_recv_parens(a))}{_recv_gap(a)}.{n[2]}({n[3]}, {render(n[4], mode)})"
    if t == "msg":
        a = n[1]
        return f"{wrap(a, level(a) < MEMBER or _needs_recv_parens(a))}{{" + ", ".join(f"{k}: {render(v, mode)}" for k, v in n[2]) + "}"
    if t == "dotcall":
        return f".{n[1]}({', '.join(render(x, mode) for x in n[2])})"
    if t == "list":
        return "[" + ", ".join(render(x, mode) for x in n[1]) + "]"
    if t == "map":
        return "{" + ", ".join(f"{render(k, mode)}: {render(v, mode)}" for k, v in n[1]) + "}"
    raise ValueError(n)


def children(n: Tuple) -> List[Tuple]:
    t = n[0]
    if t in ("lit", "var", "dotvar", "raw"):
        return []
    if t in ("un",):
        return [n[2]]
    if t == "paren":
        return [n[1]]
    if t == "bin":
        return [n[2], n[3]]
    if t == "cond":
        return [n[1], n[2], n[3]]
    if t == "index":
        return [n[1], n[2]]
    if t in ("select", "has"):
        return [n[1]]
    if t in ("call", "dotcall"):
        return list(n[2])
    if t == "msg":
        return [n[1]] + [v for _, v in n[2]]
    if t == "method":
        return [n[1]] + list(n[3])
    if t == "macro":
        return [n[1], n[4]]
    if t == "list":
        return list(n[1])
    if t == "map":
        return [x for kv in n[1] for x in kv]
    raise ValueError(n)


def size(n: Tuple) -> int:
    return 1 + sum(size(c) for c in children(n))


def depth(n: Tuple) -> int:
    return 1 + max([depth(c) for c in children(n)], default=0)


def walk(n: Tuple):
    yield n
    for c in children(n):
        yield from walk(c)


def features(n: Tuple) -> set:
    """Feature labels for class distributions."""
    out = set()
    for x in walk(n):
        t = x[0]
        if t == "bin":
            out.add("op:" + x[1])
        elif t == "un":
            out.add("un:" + x[1])
        elif t == "macro":
            out.add("macro:" + x[2])
        elif t in ("call", "method"):
            out.add("fn:" + (x[1] if t == "call" else x[2]))
        elif t in ("cond", "index", "select", "has", "list", "map"):
            out.add(t)
    return out
