"""Per-property registration data used to generate MANIFEST.json (bin/gen-manifest)."""

CHECKS = {
    "C01": dict(
        technique="property-based testing (Hypothesis) + exhaustive boundary grid vs exact bigint/rational reference model",
        category="exploration",
        text="Generated operand pairs (boundary-biased, exhaustive boundary grid) through 4 routes x 2 runners against an "
             "exact bigint / correctly-rounded rational oracle; finds any range-bound, sign-rule or reflected-path error on "
             "the explored pairs, cannot prove absence for all 2^128 pairs.",
        note="Trusts CPython bigint arithmetic and correctly rounded int/int true division; error = ValueError/ZeroDivisionError/"
             "TypeError/OverflowError at API level, CELEvalError at runner level.",
        design_ref="DESIGN.md §4 C01",
    ),
    "C08": dict(
        technique="property-based testing (Hypothesis): algebraic laws + native comparison model over generated same-type pairs/triples",
        category="exploration",
        text="Generated same-type pairs and triples (equal copies, one-position mutations, independent) of every CEL type incl. nested "
             "lists/maps; reflexivity, symmetry, negation, converse, trichotomy, transitivity and agreement with a native model, "
             "through both runners, literals with different offset/unit spellings, and celtypes dunders.",
        note="Trusts Python's comparison of plain payloads (ints, str by code point, bytes, floats, dict/list structural equality) as the model.",
        design_ref="DESIGN.md §4 C08",
    ),
    "C10": dict(
        technique="property-based testing (Hypothesis): round-trip and exact range-predicate oracles over generated values",
        category="exploration",
        text="Generated values of every source type (boundary-biased) pushed through each conversion chain under both runners; "
             "identity for round trips, exact Fraction-based truncation/range predicates, Error for unparsable or out-of-range input.",
        note="Trusts Fraction/bigint arithmetic; 'unparsable' restricted to texts no CEL implementation accepts; uint(d) for -1<d<0 not asserted.",
        design_ref="DESIGN.md §4 C10",
    ),
    "C07": dict(
        technique="property-based testing (Hypothesis): literal round trip evaluate(spell(v)) == v over generated values x spellings",
        category="exploration",
        text="Generated strings/bytes (all Unicode, invalid UTF-8, quotes, backslashes) x every quoting style and per-character escape choice, "
             "int/uint in decimal/hex with sign and leading zeros incl. out-of-range neighbours, decimal float texts against a Fraction-rounded "
             "oracle; both runners.",
        note="Spellings outside the statement's list are not asserted here (C04 generates them for totality) (\\u in bytes, surrogates, raw CR, raw literal with backslash before a quote).",
        design_ref="DESIGN.md §4 C07",
    ),
    "C15": dict(
        technique="property-based testing (Hypothesis): JSON round trip under type-strict equality + path-navigation differential against plain Python",
        category="exploration",
        text="Generated recursive JSON documents: exact-class kind map, encoder/decoder round trip with True!=1, 3!=3.0, -0.0!=0.0, every path "
             "navigated in CEL (.field, [\"key\"], [i]) under both runners vs the same path in Python; timestamp/duration/bytes encodings vs "
             "independent RFC 3339 / seconds / base64 formatters.",
        note="Trusts the stdlib json module for parsing the encoder's output; whole-second timestamps/durations only in the encoding part.",
        design_ref="DESIGN.md §4 C15",
    ),
    "C11": dict(
        technique="property-based testing (Hypothesis) against an independent integer-microsecond calendar model (days-from-civil), zoneinfo differential for DST zones",
        category="exploration",
        text="Generated timestamps/durations/offsets/zones: arithmetic laws and range errors vs integer microsecond arithmetic, ten accessors vs an "
             "independent proleptic-Gregorian computation in UTC, +-HH:MM offsets and IANA zones, duration texts vs exact Fraction sums; both runners.",
        note="Constant-offset zones by public record (>=1970); DST zones differential vs zoneinfo; fractional duration texts < 1e8 s.",
        design_ref="DESIGN.md §4 C11",
    ),
    "C02": dict(
        technique="exhaustive enumeration of operator trees x outcome assignments + Hypothesis for deeper trees, against a strong-Kleene three-valued reference model",
        category="exploration",
        text="Every tree over &&,||,!,?: up to 2 operators (3 in thorough) x every {T,F,E,N} leaf assignment, errors realised by 20 kinds of failing "
             "sub-expression, all()/exists() over every list of outcome codes up to length 4 (5 thorough), logical_* called directly; both runners.",
        note="Positions where the statement is silent (N && T, N || F, !N, N && E) are modelled as unspecified and skipped; sub-expressions fully parenthesised.",
        design_ref="DESIGN.md §4 C02",
    ),
    "C09": dict(
        technique="property-based testing (Hypothesis): type-directed program generation against an independent reference evaluator + metamorphic laws",
        category="exploration",
        text="Generated well-typed programs over lists/maps/strings/macros (indexes over all of int64, duplicate keys, regex fragment) evaluated by both "
             "runners and by vf.refcel (no code shared with celpy); mismatches localised to the smallest disagreeing sub-expression; the statement's laws "
             "as metamorphic relations on bound values; string predicates vs native.",
        note="Trusts vf.refcel (written from the CEL definition) and vf.remini (fuzzed against RE2 on the fragment); has() of an error/non-map, string(double) etc. are unspecified and skipped.",
        design_ref="DESIGN.md §4 C09",
    ),
    "C13": dict(
        technique="property-based testing (Hypothesis) + exhaustive root-production templates: exact result class and type(e)==N against the reference value's CEL type",
        category="exploration",
        text="Every operator/function/macro/conversion once at the root over 3 fixed activations (exhaustive template table) plus generated nested programs: exact "
             "class skeleton of the returned value, type(e)==N for the 12 names, type(x op y)==type(x) for closed operators; both runners.",
        note="CEL type taken from vf.refcel's value; programs whose reference outcome is an error are skipped.",
        design_ref="DESIGN.md §4 C13",
    ),
    "C04": dict(
        technique="fuzzing (Hypothesis; thorough: + coverage-guided atheris/libFuzzer campaign with the oracle inside the target): totality oracle (value | CELEvalError | CELParseError with in-text position) over text, token soup, grammar-directed ill-typed programs and the mutated conformance corpus; thorough adds an atheris campaign",
        category="exploration",
        text="Arbitrary text, token soup and character-mutated corpus expressions into compile(); grammar-directed programs (every operator, member, index, macro, "
             "function on every value kind), the corpus (+ a hand-written edge supplement) verbatim and mutated, into both runners; any exception other than the "
             "library's errors, a parse error without an in-text position, or an error that cannot be rendered is a violation; crashes bucketed by (type, innermost celpy frame) "
             "and localised to the smallest crashing sub-expression.",
        note="Out of domain: has() of a non-selection. 'Ends' = under 20 s (compile) / 60 s (evaluate) of CPU time for bounded texts, plus a CPU-time ratio test on unterminated literals; thorough adds a coverage-guided campaign (atheris) whose findings are re-run through this check's replay before they count. One recorded finding (nesting deeper than ~65).",
        design_ref="DESIGN.md §4 C04",
    ),
    "C03": dict(
        technique="differential testing (Hypothesis): interpreted vs compiled runner on generated well-typed and ill-typed programs and the (mutated) conformance corpus, mismatches localised to the smallest disagreeing sub-expression",
        category="exploration",
        text="Type-directed and grammar-directed programs x generated activations, every conformance-corpus expression (+ edge supplement) verbatim and with one "
             "mutation (absorbing contexts, operator swap, literal replacement): equal canonical value of the same class skeleton, or an error in both; a crash of "
             "either runner (incl. program()) is a mismatch.",
        note="Each runner gets its own lark parser; message text of errors not compared; also one program object per runner evaluated with a sequence of activations, and dotted / overlapping bindings under packages; recorded findings (compiled has() bool, error values used as data, message literals, null_type(), no compiled min/reduce) are excluded by narrow root-cause keys; thorough adds the coverage-guided campaign.",
        design_ref="DESIGN.md §4 C03",
    ),
    "C06": dict(
        technique="exhaustive enumeration of operator pairs/triples + property-based testing (Hypothesis): print/parse round trips (minimal vs full parentheses vs tree), token re-joining metamorphic relation, dump round trip",
        category="exploration",
        text="All IR trees with <= 2 operator nodes (<= 3 in thorough) over 22 operator kinds, generated programs and the corpus: minimal-parenthesis text, fully "
             "parenthesised text and the tree itself parse to the same expression; keywords are literals; lexer tokens re-joined with random whitespace/comments "
             "parse identically; parse(tree_dump(parse(s))) == parse(s) modulo parentheses, failures localised to the smallest sub-expression.",
        note="Trees compared through vf.tree2ir (own lark-tree-to-IR converter); signed numeric literal '-1' identified with -(1); one recorded finding ('[]' dumped as '').",
        design_ref="DESIGN.md §4 C06",
    ),
    "C12": dict(
        technique="exhaustive enumeration of binding sets x packages x references against a reference resolver written from the statement + property-based testing of nested macro scoping against the reference evaluator",
        category="exploration",
        text="Every subset of the prefixes of a.b.c bound as value or map at every package level, packages none/p/p.q, seven references, with and without "
             "declarations: outcome vs a 40-line reference resolver (undetermined combinations skipped and counted); random binding sets; generated programs with "
             "nested macros whose variables collide with outer bindings vs vf.refcel; both runners.",
        note="'.name' under a package, namespace-only references and package prefixes bound to values are not determined by the statement and skipped; one recorded finding (name bound as value and namespace).",
        design_ref="DESIGN.md §4 C12",
    ),
    "C14": dict(
        technique="exhaustive product of call shape x context template x supplying style x callable kind x behaviour x runner with a recording oracle, + Hypothesis over argument values",
        category="exploration",
        text="12 templates x 7 call shapes x 5 callable kinds x 2 supplying styles x 4 behaviours x 2 runners (exhaustive), argument values drawn by Hypothesis: a recording "
             "wrapper checks the arguments received (type-strict) and the number of calls, a small model gives the outcome incl. absorption by ||, &&, ?:; built-in "
             "overrides and their scope (same and new environment); unbound names.",
        note="'reached' = strictly evaluated position (exactly one call) vs skippable operand (at most one); compiled runner judged with the host module made visible as the repository's test does; "
             "one recorded finding (compiled runner cannot reach other kinds of host callables).",
        design_ref="DESIGN.md §4 C14",
    ),
    "C17": dict(
        technique="property-based testing (Hypothesis) against independent models (Python sets, own glob matcher, 32-bit integer CIDR arithmetic, integer tuples, positional splits) + generated evaluation sequences for the filter context",
        category="exploration",
        text="Each helper called directly and through CEL (function and method syntax, FUNCTIONS binding) on generated inputs incl. every prefix length for two base networks "
             "exhaustively; the filter context observed from inside a probe host function and after every step of generated sequences of succeeding / CEL-failing / host-raising evaluations.",
        note="Same-kind list pairs; host-bits-set networks only assert 'no foreign exception'; dates YYYY/MM/DD or YYYY-MM-DD.",
        design_ref="DESIGN.md §4 C17",
    ),
    "C18": dict(
        technique="exhaustive enumeration of filter trees x leaf operator classes x leaf-truth vectors, evaluated with the library's parser/evaluator against the Custodian combinator semantics (translation validation by testing)",
        category="exploration",
        text="All filter trees up to 5 nodes (7 thorough), depth <= 4, over {list, and, or, not} with 1-3 children through logical_connector and c7n_rewrite(YAML); leaves = stub clauses "
             "covering every top-level operator class the real rewriters emit (surveyed at run time) plus real clauses with controllable truth; every leaf-truth vector with two "
             "variable realisations; the emitted CEL must parse and evaluate to all/any/not-all.",
        note="Stub leaves installed by replacing C7N_Rewriter.primitive from outside (as the unit tests do); real leaves limited to one per family and one Tags reader per tree.",
        design_ref="DESIGN.md §4 C18",
    ),
    "C19": dict(
        technique="property-based testing (Hypothesis): translate-then-evaluate differential against the named relation applied directly in Python, literal round trips, duration-length oracle, parse check of every table entry read from the rewriters' source",
        category="exploration",
        text="Every op x value kind x value_type with resources at, just below and just above the comparison boundary; keys plain/dotted/tag:/length(); all Unicode strings as "
             "value, list member, key, tag name and value_from URL (recording stub); day and second counts vs exact Fractions; all 69+ (rewriter, resource type) table entries "
             "parsed with the library's parser.",
        note="Relation semantics as in Custodian's ValueFilter (present/not-null = truthy, absent/empty = falsy; age/expiration as time since / until); one recorded finding (glacier table entry, pinned by a test).",
        design_ref="DESIGN.md §4 C19",
    ),
    "C20": dict(
        technique="property-based testing (Hypothesis): differential against the library API for -n / -b / --arg, metamorphic relation for NDJSON (stream vs each document alone in a fresh process forked from an import-only CLI zygote), syntax-error positions known by construction",
        category="exploration",
        text="celpy.__main__.main(argv) in-process with replaced stdin/stdout/stderr: -n output equals the encoder's serialisation of the API value, -b statuses 0/1/2, syntax "
             "errors status 1 with the parser's line:column, typed --arg bindings of every CLI type built independently; NDJSON streams of 0-8 documents (objects, erroring, "
             "non-objects, malformed, blank) with/without -b, -p, -d: output = concatenation of single-document runs, status = their maximum, malformed => 3; -s equals the one-line run; "
             "thorough adds real subprocesses.",
        note="Per-document status codes are not assumed (metamorphic); an evaluation error without -b is not asserted.",
        design_ref="DESIGN.md §4 C20",
    ),
    "C05": dict(
        technique="model-based generation of API histories (Hypothesis) with a fresh-process oracle: every evaluation in a history vs the same evaluation alone in a process that has only imported the library",
        category="exploration",
        text="Generated histories of {Environment(runner class, package, annotations), compile+program, evaluate, re-evaluate} over pools built to touch shared state; each history "
             "runs in a child forked from an import-only process; each evaluation is compared with the same (configuration, expression, bindings) evaluated alone in a fresh "
             "forked process; caller's bindings unmodified; re-evaluation stable; failing histories minimised by greedy operation removal.",
        note="lark's LALR analysis is loaded from a per-tree-class cache file in all processes alike (speed-up only); pools are finite (18 environments, 29 expressions, 26 binding sets incl. mis-spelled zone names and patterns, 5 host-function configurations incl. list/dict form and a built-in override).",
        design_ref="DESIGN.md §4 C05",
    ),
    "C16": dict(
        technique="schedule fuzzing: deterministic line-level thread scheduler (sys.settrace baton) with Hypothesis-generated preemption schedules, single preemption at every distinct source line of state-touching functions, double preemption crossed per function (A in, B in, A out, B continues), strided exhaustive enumeration, plus free-running stress",
        category="exploration",
        text="2-4 threads each with its own Environment/program/bindings; exactly one runs at a time and is preempted only at Python line events inside celpy and transpiled code, at "
             "generated step indexes (first preemption aimed at lines of evaluate/transpile/program/parse/result); every thread's outcomes equal its alone run. Thorough: every single "
             "preemption point for five program pairs, <= 5 preemptions, 300 stress iterations.",
        note="Line granularity (not bytecode), bounded preemptions, library code outside celpy unpreempted; every run starts from the host's default recursion limit; threads supply their own host functions; stress is not reproducible and only supplements the scheduler.",
        design_ref="DESIGN.md §4 C16",
    ),
}
NOT_APPLICABLE = {}
