"""Per-property registration data used to generate MANIFEST.json (bin/gen-manifest)."""

CHECKS = {
    "C01": dict(
        technique="property-based testing (Hypothesis) + exhaustive boundary grid vs exact bigint/rational reference model",
        category="exploration",
        text="Generated operand pairs (boundary-biased, exhaustive boundary grid) through 4 routes x 2 runners against an "
             "exact bigint / correctly-rounded rational oracle; finds any range-bound, sign-rule or reflected-path error on "
             "the explored pairs, cannot prove absence for all 2^128 pairs.",
        note="Trusts CPython bigint arithmetic and correctly rounded int/int true division; error = ValueError/ZeroDivisionError/"
             "TypeError/OverflowError at API level, CELEvalError at runner level.",
        design_ref="DESIGN.md §4 C01",
    ),
}
NOT_APPLICABLE = {}
