"""Hypothesis strategies for CEL values (plain Python payloads; wrap with to_cel()), boundary-biased."""

from __future__ import annotations

import datetime
import math
import struct
import sys
from typing import Any

from hypothesis import strategies as st

I_MIN, I_MAX = -(2**63), 2**63 - 1
U_MAX = 2**64 - 1

INT_B = sorted(
    {I_MIN, I_MIN + 1, -1, 0, 1, I_MAX - 1, I_MAX, 2**31, -(2**31), 2**32, -(2**32), 2**31 - 1, 2**32 - 1,
     2**53 - 1, 2**53, 2**53 + 1, -(2**53) - 1, -(2**53), -(2**53) + 1, 2**62, -(2**62), 3037000499, 3037000500, -3037000500,
     2, -2, 3, -3, 5, -5, 7, 10, -10}
)
UINT_B = sorted({0, 1, 2, 3, 5, 10, 2**31, 2**32, 2**32 - 1, 2**53, 2**63 - 1, 2**63, 2**63 + 1, U_MAX - 1, U_MAX, 4294967296, 4294967295})


def _pow2(lo_bits: int, hi_bits: int, signed: bool):
    base = st.integers(lo_bits, hi_bits).map(lambda k: 2**k)
    near = st.tuples(base, st.sampled_from([-1, 0, 1])).map(lambda t: t[0] + t[1])
    if signed:
        return st.tuples(near, st.booleans()).map(lambda t: -t[0] if t[1] else t[0])
    return near


def int64():
    return st.one_of(
        st.sampled_from(INT_B),
        st.integers(I_MIN, I_MAX),
        _pow2(0, 63, True).filter(lambda v: I_MIN <= v <= I_MAX),
        st.integers(-20, 20),
        st.integers(-(2**33), 2**33),
    )


def uint64():
    return st.one_of(
        st.sampled_from(UINT_B),
        st.integers(0, U_MAX),
        _pow2(0, 64, False).filter(lambda v: 0 <= v <= U_MAX),
        st.integers(0, 20),
    )


DBL_MAX = sys.float_info.max
DBL_MIN_SUB = 5e-324
DBL_B = [0.0, -0.0, 1.0, -1.0, 0.5, -0.5, 2.0, 3.0, 0.1, 0.2, 0.3, 1e308, -1e308, DBL_MAX, -DBL_MAX, DBL_MIN_SUB, -DBL_MIN_SUB,
         2.2250738585072014e-308, float(2**53), float(2**53) + 2.0, float(2**63), -float(2**63), float(2**64),
         math.nextafter(float(2**63), 0.0), math.nextafter(float(2**64), 0.0), math.nextafter(-float(2**63), -math.inf),
         1e16, 1e-7, 123456789.123456789, 1.5, -1.5, 2.5, 1e22, 1e23, 9007199254740993.0]


def finite_double():
    return st.one_of(st.sampled_from(DBL_B), st.floats(allow_nan=False, allow_infinity=False), st.integers(-100, 100).map(float),
                     st.floats(-1e6, 1e6, allow_nan=False))


def double_with_inf():
    return st.one_of(finite_double(), st.sampled_from([math.inf, -math.inf, 0.0, -0.0]))


SPECIAL_CHARS = "\"'\\\n\r\t\a\b\f\v\0 ?`$%{}[]()|*+.^"
SMALL_ALPHA = "abc"
NON_BMP = "\U0001f431\U00010000\U0010ffff\U0001f600"
NON_ASCII = "éÿĀß✌́​﻿ \x7f\x80\x85"


def text_chars():
    return st.one_of(
        st.sampled_from(SMALL_ALPHA),
        st.sampled_from(SPECIAL_CHARS),
        st.sampled_from(NON_BMP),
        st.sampled_from(NON_ASCII),
        st.characters(exclude_categories=["Cs"]),
    )


def text(max_size: int = 12):
    return st.one_of(
        st.lists(text_chars(), max_size=max_size).map("".join),
        st.text(alphabet=SMALL_ALPHA, max_size=4),
        st.text(max_size=max_size).filter(lambda s: not any(0xD800 <= ord(c) <= 0xDFFF for c in s)),
    )


def small_text():
    return st.text(alphabet=SMALL_ALPHA, max_size=3)


def binary(max_size: int = 12):
    return st.one_of(
        st.binary(max_size=max_size),
        st.lists(st.sampled_from([0, 1, 0x22, 0x27, 0x5C, 0x0A, 0x0D, 0x61, 0x62, 0x7F, 0x80, 0xC3, 0xA9, 0xFF, 0xFE, 0xF0, 0x9F]),
                 max_size=max_size).map(bytes),
        text(6).map(lambda s: s.encode("utf-8")),
    )


# Timestamps: integer microseconds since the epoch; range 0001-01-01T00:00:00Z .. 9999-12-31T23:59:59.999999Z
TS_MIN = -62135596800 * 10**6
TS_MAX = 253402300799 * 10**6 + 999999
DAY_US = 86400 * 10**6


def _ymd_us(y: int, m: int, d: int, hh: int = 0, mm: int = 0, ss: int = 0, us: int = 0) -> int:
    from vf.calendar import days_from_civil

    return ((days_from_civil(y, m, d) * 86400) + hh * 3600 + mm * 60 + ss) * 10**6 + us


def timestamp_us(whole_seconds: bool = False):
    years = st.one_of(st.sampled_from([1, 2, 4, 99, 100, 400, 999, 1000, 1582, 1600, 1899, 1900, 1969, 1970, 1971, 1999, 2000, 2001,
                                        2009, 2020, 2024, 2038, 2100, 2400, 9998, 9999]), st.integers(1, 9999))
    boundary = st.tuples(years, st.sampled_from([(1, 1), (2, 28), (3, 1), (12, 31), (6, 30), (7, 1), (2, 1)]),
                         st.sampled_from([0, 1, -1, 3600, -3600, 43200, 50400, -50400, 86399, 86400])).map(
        lambda t: _ymd_us(t[0], t[1][0], t[1][1]) + t[2] * 10**6)
    anyus = st.integers(TS_MIN, TS_MAX)
    near_epoch = st.integers(-2 * DAY_US, 2 * DAY_US)
    s = st.one_of(boundary, anyus, near_epoch, st.sampled_from([TS_MIN, TS_MAX, 0, 1, -1, 1234567890 * 10**6]))
    s = s.map(lambda v: min(max(v, TS_MIN), TS_MAX))
    if whole_seconds:
        s = s.map(lambda v: (v // 10**6) * 10**6)
    else:
        s = st.one_of(s, s.map(lambda v: (v // 10**6) * 10**6))
    return s


DUR_MAX_S = 315_576_000_000
DUR_MAX = DUR_MAX_S * 10**6


def duration_us(whole_seconds: bool = False):
    s = st.one_of(
        st.sampled_from([0, 1, -1, 10**6, -(10**6), 999999, -999999, 60 * 10**6, 3600 * 10**6, DAY_US, -DAY_US, DUR_MAX, -DUR_MAX,
                         DUR_MAX - 1, -DUR_MAX + 1, 1500000, -1500000]),
        st.integers(-DUR_MAX, DUR_MAX),
        st.integers(-10 * DAY_US, 10 * DAY_US),
        st.integers(-(10**7), 10**7),
    )
    if whole_seconds:
        s = s.map(lambda v: int(v / 10**6) * 10**6 if v >= 0 else -((-v) // 10**6) * 10**6)
    return s


def us_to_datetime(us: int, offset_min: int = 0) -> datetime.datetime:
    """Aware datetime for an instant (microseconds since epoch), expressed at a fixed offset."""
    tz = datetime.timezone(datetime.timedelta(minutes=offset_min)) if offset_min else datetime.timezone.utc
    base = datetime.datetime(1970, 1, 1, tzinfo=datetime.timezone.utc) + datetime.timedelta(microseconds=us)
    return base.astimezone(tz)


def to_cel(kind: str, v: Any) -> Any:
    """Wrap a plain payload as a celpy value of the given kind."""
    from celpy import celtypes as ct

    if kind == "int":
        return ct.IntType(v)
    if kind == "uint":
        return ct.UintType(v)
    if kind == "double":
        return ct.DoubleType(v)
    if kind == "bool":
        return ct.BoolType(v)
    if kind == "string":
        return ct.StringType(v)
    if kind == "bytes":
        return ct.BytesType(v)
    if kind == "null":
        return None
    if kind == "json":  # a JSON-like document: null / bool / int / float / str / list / dict with string keys
        if v is None:
            return None
        if isinstance(v, bool):
            return ct.BoolType(v)
        if isinstance(v, int):
            return ct.IntType(v)
        if isinstance(v, float):
            return ct.DoubleType(v)
        if isinstance(v, str):
            return ct.StringType(v)
        if isinstance(v, list):
            return ct.ListType([to_cel("json", i) for i in v])
        return ct.MapType({ct.StringType(a): to_cel("json", b) for a, b in v.items()})
    if kind == "timestamp":
        return ct.TimestampType(us_to_datetime(v))
    if kind == "duration":
        return ct.DurationType(datetime.timedelta(microseconds=v))
    if kind.startswith("list"):
        inner = kind[5:-1]
        return ct.ListType([to_cel(inner, i) for i in v])
    if kind.startswith("map"):
        kk, vk = kind[4:-1].split(",", 1)
        return ct.MapType({to_cel(kk, a): to_cel(vk, b) for a, b in v.items()})
    raise ValueError(kind)
