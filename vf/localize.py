"""Find the smallest sub-expression on which two evaluators disagree (deterministic root-cause localisation)."""

from __future__ import annotations

from typing import Any, Callable, Tuple

from vf import ir


def closed_children(n: Tuple):
    """Children that are closed sub-expressions (macro bodies have a free iteration variable: skipped)."""
    if n[0] == "macro":
        return [n[1]]
    return ir.children(n)


def culprit(n: Tuple, disagree: Callable[[Tuple], bool], budget: int = 60, children_fn=None) -> Tuple:
    """Smallest sub-expression (all of whose closed children agree) on which `disagree` holds. Assumes disagree(n)."""
    cur = n
    children_fn = children_fn or closed_children
    while budget > 0:
        for c in children_fn(cur):
            budget -= 1
            try:
                bad = disagree(c)
            except Exception:
                bad = False
            if bad:
                cur = c
                break
        else:
            return cur
    return cur


def describe(n: Tuple) -> str:
    t = n[0]
    if t == "bin":
        return f"bin:{n[1]}"
    if t == "un":
        return f"un:{n[1]}"
    if t == "macro":
        return f"macro:{n[2]}"
    if t == "call":
        return f"call:{n[1]}"
    if t == "method":
        return f"method:{n[2]}"
    if t == "lit":
        return f"lit:{n[1]}"
    return t


def strip_paren(n: Tuple) -> Tuple:
    while n[0] == "paren":
        n = n[1]
    return n


def has_operand(n: Tuple) -> bool:
    """Is a has() macro an immediate operand of this node?"""
    return any(strip_paren(c)[0] == "has" for c in ir.children(n))


def python_bool_from_has(n: Tuple, evaluate) -> bool:
    """Does a plain Python bool, produced by a has() somewhere below, reach this node as an operand?
    `evaluate(sub)` returns the vf.cel outcome tuple of a closed sub-expression under the compiled runner."""
    for c in closed_children(n):
        c = strip_paren(c)
        if not any(x[0] == "has" for x in ir.walk(c)):
            continue
        try:
            o = evaluate(c)
        except Exception:
            continue
        if o[0] == "value" and o[1] == "bool":
            return True
    return False


def wrap_has(n: Tuple) -> Tuple:
    """The same program with every has(e.f) written as (has(e.f) == true): under the compiled runner that is a BoolType again."""
    t = n[0]
    if t == "has":
        return ("paren", ("bin", "==", ("has", wrap_has(n[1]), n[2]), ("lit", "bool", True)))
    if t in ("lit", "raw", "var", "dotvar"):
        return n
    if t == "un":
        return ("un", n[1], wrap_has(n[2]))
    if t == "paren":
        return ("paren", wrap_has(n[1]))
    if t == "bin":
        return ("bin", n[1], wrap_has(n[2]), wrap_has(n[3]))
    if t == "cond":
        return ("cond", wrap_has(n[1]), wrap_has(n[2]), wrap_has(n[3]))
    if t == "index":
        return ("index", wrap_has(n[1]), wrap_has(n[2]))
    if t == "select":
        return ("select", wrap_has(n[1]), n[2])
    if t in ("call", "dotcall"):
        return (t, n[1], tuple(wrap_has(x) for x in n[2]))
    if t == "method":
        return ("method", wrap_has(n[1]), n[2], tuple(wrap_has(x) for x in n[3]))
    if t == "macro":
        return ("macro", wrap_has(n[1]), n[2], n[3], wrap_has(n[4]))
    if t == "list":
        return ("list", tuple(wrap_has(x) for x in n[1]))
    if t == "map":
        return ("map", tuple((wrap_has(k), wrap_has(v)) for k, v in n[1]))
    if t == "msg":
        return ("msg", wrap_has(n[1]), tuple((k, wrap_has(v)) for k, v in n[2]))
    return n


def has_bool_is_root_cause(n: Tuple, agrees) -> bool:
    """True if the node contains has() and the disagreement disappears once every has() result is turned into a CEL bool.
    `agrees(node)` evaluates the (rewritten) node and says whether the two sides now agree."""
    if not any(x[0] == "has" for x in ir.walk(n)):
        return False
    try:
        return bool(agrees(wrap_has(n)))
    except Exception:
        return False
