"""Find the smallest sub-expression on which two evaluators disagree (deterministic root-cause localisation)."""

from __future__ import annotations

from typing import Any, Callable, Tuple

from vf import ir


def closed_children(n: Tuple):
    """Children that are closed sub-expressions (macro bodies have a free iteration variable: skipped)."""
    if n[0] == "macro":
        return [n[1]]
    return ir.children(n)


def culprit(n: Tuple, disagree: Callable[[Tuple], bool], budget: int = 60, children_fn=None) -> Tuple:
    """Smallest sub-expression (all of whose closed children agree) on which `disagree` holds. Assumes disagree(n)."""
    cur = n
    children_fn = children_fn or closed_children
    while budget > 0:
        for c in children_fn(cur):
            budget -= 1
            try:
                bad = disagree(c)
            except Exception:
                bad = False
            if bad:
                cur = c
                break
        else:
            return cur
    return cur


def describe(n: Tuple) -> str:
    t = n[0]
    if t == "bin":
        return f"bin:{n[1]}"
    if t == "un":
        return f"un:{n[1]}"
    if t == "macro":
        return f"macro:{n[2]}"
    if t == "call":
        return f"call:{n[1]}"
    if t == "method":
        return f"method:{n[2]}"
    if t == "lit":
        return f"lit:{n[1]}"
    return t


def strip_paren(n: Tuple) -> Tuple:
    while n[0] == "paren":
        n = n[1]
    return n


def has_operand(n: Tuple) -> bool:
    """Is a has() macro an immediate operand of this node?"""
    return any(strip_paren(c)[0] == "has" for c in ir.children(n))


def python_bool_from_has(n: Tuple, evaluate) -> bool:
    """Does a plain Python bool, produced by a has() somewhere below, reach this node as an operand?
    `evaluate(sub)` returns the vf.cel outcome tuple of a closed sub-expression under the compiled runner."""
    for c in closed_children(n):
        c = strip_paren(c)
        if not any(x[0] == "has" for x in ir.walk(c)):
            continue
        try:
            o = evaluate(c)
        except Exception:
            continue
        if o[0] == "value" and o[1] == "bool":
            return True
    return False
