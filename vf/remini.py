"""Tiny reference regex matcher (backtracking) for the RE2-compatible fragment the generators emit.

Syntax: literals (any char except the metacharacters), '.', character classes [abc] [^abc] [a-c],
groups ( ... ), alternation |, postfix * + ?, anchors ^ $, escapes \\. \\\\ \\( etc. (escaped metacharacter = literal).
search(pattern, text) -> bool: does any substring match (RE2 partial match semantics; on this fragment the
existence of a match does not depend on the matching discipline).
"""

from __future__ import annotations

from typing import Any, List, Tuple

META = set("\\.[]()|*+?^${}")


class BadPattern(Exception):
    pass


def parse(p: str) -> Any:
    pos = [0]

    def peek() -> str:
        return p[pos[0]] if pos[0] < len(p) else ""

    def alt() -> Any:
        branches = [seq()]
        while peek() == "|":
            pos[0] += 1
            branches.append(seq())
        return ("alt", branches) if len(branches) > 1 else branches[0]

    def seq() -> Any:
        items = []
        while pos[0] < len(p) and peek() not in "|)":
            items.append(postfix())
        return ("seq", items)

    def postfix() -> Any:
        a = atom()
        while peek() in ("*", "+", "?") and peek() != "":
            op = peek()
            pos[0] += 1
            if a[0] in ("bol", "eol"):
                raise BadPattern("repeat of anchor")
            if a[0] in ("star", "plus", "opt"):
                raise BadPattern("double repeat")  # RE2 rejects a** ; keep the fragment unambiguous
            a = ({"*": "star", "+": "plus", "?": "opt"}[op], a)
        return a

    def atom() -> Any:
        c = peek()
        if c == "":
            raise BadPattern("unexpected end")
        pos[0] += 1
        if c == "(":
            inner = alt()
            if peek() != ")":
                raise BadPattern("missing )")
            pos[0] += 1
            return ("group", inner)
        if c == "[":
            neg = False
            if peek() == "^":
                neg = True
                pos[0] += 1
            items: List[Tuple[str, str]] = []
            first = True
            while True:
                ch = peek()
                if ch == "":
                    raise BadPattern("missing ]")
                if ch == "]" and not first:
                    pos[0] += 1
                    break
                pos[0] += 1
                if ch == "\\":
                    ch = peek()
                    if ch == "":
                        raise BadPattern("trailing backslash")
                    pos[0] += 1
                first = False
                if peek() == "-" and pos[0] + 1 < len(p) and p[pos[0] + 1] != "]":
                    pos[0] += 1
                    hi = peek()
                    pos[0] += 1
                    if hi == "\\":
                        hi = peek()
                        pos[0] += 1
                    if hi < ch:
                        raise BadPattern("bad range")
                    items.append((ch, hi))
                else:
                    items.append((ch, ch))
            return ("class", neg, items)
        if c == ".":
            return ("any",)
        if c == "^":
            return ("bol",)
        if c == "$":
            return ("eol",)
        if c == "\\":
            ch = peek()
            if ch == "" or ch not in META:
                raise BadPattern("unsupported escape")
            pos[0] += 1
            return ("char", ch)
        if c in "*+?":
            raise BadPattern("nothing to repeat")
        if c in ")]{}":
            if c == ")":
                raise BadPattern("unbalanced )")
            if c in "{}":
                raise BadPattern("braces not in fragment")
            return ("char", c)
        return ("char", c)

    tree = alt()
    if pos[0] != len(p):
        raise BadPattern("unbalanced )")
    return tree


def _match(node: Any, text: str, i: int, k) -> bool:
    """Continuation-passing backtracking matcher: does node match at i and the continuation k(j) succeed?"""
    t = node[0]
    if t == "char":
        return i < len(text) and text[i] == node[1] and k(i + 1)
    if t == "any":
        return i < len(text) and text[i] != "\n" and k(i + 1)
    if t == "class":
        if i >= len(text):
            return False
        hit = any(lo <= text[i] <= hi for lo, hi in node[2])
        return (hit != node[1]) and k(i + 1)
    if t == "bol":
        return i == 0 and k(i)
    if t == "eol":
        return i == len(text) and k(i)
    if t == "group":
        return _match(node[1], text, i, k)
    if t == "seq":
        items = node[1]

        def run(idx: int, j: int) -> bool:
            if idx == len(items):
                return k(j)
            return _match(items[idx], text, j, lambda j2: run(idx + 1, j2))

        return run(0, i)
    if t == "alt":
        return any(_match(b, text, i, k) for b in node[1])
    if t == "opt":
        return _match(node[1], text, i, k) or k(i)
    if t in ("star", "plus"):
        seen = set()

        def loop(j: int) -> bool:
            if j in seen:
                return False
            seen.add(j)
            return k(j) or _match(node[1], text, j, lambda j2: j2 != j and loop(j2))

        if t == "plus":
            return _match(node[1], text, i, loop)
        return loop(i)
    raise ValueError(node)


def search(pattern: str, text: str) -> bool:
    tree = parse(pattern)
    for start in range(len(text) + 1):
        if _match(tree, text, start, lambda j: True):
            return True
    return False
