"""value -> CEL source text, in every spelling the grammar admits (Hypothesis composite strategies).

Every random choice is drawn from Hypothesis so failures shrink and replay.
"""

from __future__ import annotations

from typing import List, Optional, Tuple

from hypothesis import strategies as st

SIMPLE = {"\a": "\\a", "\b": "\\b", "\f": "\\f", "\n": "\\n", "\r": "\\r", "\t": "\\t", "\v": "\\v", "\\": "\\\\", '"': '\\"', "'": "\\'"}

QUOTES = ["'", '"', "'''", '"""']


def _hexcase(draw, s: str) -> str:
    return s.upper() if draw(st.booleans()) else s.lower()


def _escape_options(cp: int, for_bytes: bool) -> List[str]:
    """Escape spellings that denote code point (or octet) cp."""
    out = []
    ch = chr(cp)
    if ch in SIMPLE:
        out.append("simple")
    if cp <= 0xFF:
        out += ["x", "oct"]
    if not for_bytes:
        if cp <= 0xFFFF:
            out.append("u")
        out.append("U")
    return out


def _spell_escape(draw, cp: int, how: str) -> str:
    if how == "simple":
        return SIMPLE[chr(cp)]
    if how == "x":
        return "\\x" + _hexcase(draw, f"{cp:02x}")
    if how == "oct":
        return f"\\{cp:03o}"
    if how == "u":
        return "\\u" + _hexcase(draw, f"{cp:04x}")
    return "\\U" + _hexcase(draw, f"{cp:08x}")


def _raw_ok(ch: str, quote: str, prev_raw_quote: bool, is_last: bool) -> bool:
    """May `ch` appear unescaped inside a non-raw literal delimited by `quote`?"""
    if ch == "\\":
        return False
    q = quote[0]
    if len(quote) == 1:
        if ch in "\n\r":
            return False
        return ch != q
    # triple quoted: newlines are fine; a delimiter-kind quote only when it cannot start/finish a terminator
    if ch == q:
        return not prev_raw_quote and not is_last
    return True


@st.composite
def spell_string(draw, s: str, prefer_escape: Optional[bool] = None) -> Tuple[str, dict]:
    """CEL source text of a string literal denoting exactly `s`; returns (text, info)."""
    raw_possible = _raw_string_ok(s)
    style = draw(st.sampled_from(QUOTES))
    use_raw = raw_possible(style) and draw(st.integers(0, 3)) == 0
    info = {"style": style, "raw": use_raw, "escapes": 0, "kinds": []}
    if use_raw:
        return draw(st.sampled_from(["r", "R"])) + style + s + style, info
    bias = draw(st.integers(0, 2)) if prefer_escape is None else (2 if prefer_escape else 0)
    parts = []
    prev_raw_quote = False
    for i, ch in enumerate(s):
        can_raw = _raw_ok(ch, style, prev_raw_quote, i == len(s) - 1)
        want_escape = (not can_raw) or (bias == 2) or (bias == 1 and draw(st.booleans()))
        if want_escape:
            how = draw(st.sampled_from(_escape_options(ord(ch), False)))
            parts.append(_spell_escape(draw, ord(ch), how))
            info["escapes"] += 1
            info["kinds"].append(how)
            prev_raw_quote = False
        else:
            parts.append(ch)
            prev_raw_quote = ch == style[0]
    return style + "".join(parts) + style, info


def _raw_string_ok(s: str):
    """Returns a predicate: may `s` be written as a raw literal with this quote style?
    Raw = no escapes at all. We stay inside what both this grammar and the CEL grammar agree on:
    a backslash must not be followed by a quote character or end the text."""

    def ok(style: str) -> bool:
        q = style[0]
        if len(style) == 1:
            if q in s or "\n" in s or "\r" in s:
                return False
        else:
            if q * 3 in s or s.endswith(q) or (q * 2) in s:
                return False
            if "\r" in s:
                return False
        for i, ch in enumerate(s):
            if ch == "\\" and (i == len(s) - 1 or s[i + 1] in "\"'"):
                return False
        return True

    return ok


@st.composite
def spell_bytes(draw, b: bytes) -> Tuple[str, dict]:
    """CEL source text of a bytes literal denoting exactly the octets `b`."""
    style = draw(st.sampled_from(QUOTES))
    prefix = draw(st.sampled_from(["b", "B"]))
    info = {"style": style, "raw": False, "escapes": 0, "kinds": [], "utf8_raw": 0}
    # raw form: only if b is valid UTF-8 whose text is raw-spellable
    try:
        as_text = b.decode("utf-8")
    except UnicodeDecodeError:
        as_text = None
    if as_text is not None and _raw_string_ok(as_text)(style) and draw(st.integers(0, 3)) == 0:
        info["raw"] = True
        if any(ord(c) > 127 for c in as_text):
            info["utf8_raw"] = 1
        return prefix + draw(st.sampled_from(["r", "R"])) + style + as_text + style, info
    bias = draw(st.integers(0, 2))
    parts = []
    i = 0
    prev_raw_quote = False
    while i < len(b):
        # try a raw multi-byte UTF-8 character
        ch, n = _utf8_char_at(b, i)
        if ch is not None and n > 1 and draw(st.booleans()):
            parts.append(ch)
            info["utf8_raw"] += 1
            i += n
            prev_raw_quote = False
            continue
        byte = b[i]
        can_raw = byte < 0x80 and _raw_ok(chr(byte), style, prev_raw_quote, i == len(b) - 1)
        want_escape = (not can_raw) or bias == 2 or (bias == 1 and draw(st.booleans()))
        if want_escape:
            how = draw(st.sampled_from(_escape_options(byte, True)))
            parts.append(_spell_escape(draw, byte, how))
            info["escapes"] += 1
            info["kinds"].append(how)
            prev_raw_quote = False
        else:
            parts.append(chr(byte))
            prev_raw_quote = chr(byte) == style[0]
        i += 1
    return prefix + style + "".join(parts) + style, info


def _utf8_char_at(b: bytes, i: int) -> Tuple[Optional[str], int]:
    for n in (4, 3, 2):
        chunk = b[i : i + n]
        if len(chunk) == n:
            try:
                s = chunk.decode("utf-8")
            except UnicodeDecodeError:
                continue
            if len(s) == 1 and not (0xD800 <= ord(s) <= 0xDFFF):
                return s, n
    return None, 0


@st.composite
def spell_int(draw, v: int, unsigned: bool = False) -> Tuple[str, dict]:
    """Decimal or hex spelling with optional leading zeros (and sign for negatives)."""
    hexa = draw(st.booleans())
    zeros = draw(st.sampled_from([0, 0, 0, 1, 2, 5]))
    sign = "-" if v < 0 else ""
    mag = abs(v)
    if hexa:
        digits = f"{mag:x}"
        digits = "".join(c.upper() if draw(st.booleans()) else c for c in digits)
        body = "0x" + "0" * zeros + digits
    else:
        body = "0" * zeros + str(mag)
    suffix = draw(st.sampled_from(["u", "U"])) if unsigned else ""
    return sign + body + suffix, {"hex": hexa, "zeros": zeros}


def conservative_string(s: str) -> str:
    """Double-quoted literal with \\uHHHH / \\UHHHHHHHH for everything outside [A-Za-z0-9_ ]."""
    out = []
    for ch in s:
        if ch.isascii() and (ch.isalnum() or ch in "_ "):
            out.append(ch)
        elif ord(ch) <= 0xFFFF:
            out.append(f"\\u{ord(ch):04x}")
        else:
            out.append(f"\\U{ord(ch):08x}")
    return '"' + "".join(out) + '"'


def conservative_bytes(b: bytes) -> str:
    return 'b"' + "".join(f"\\x{x:02x}" for x in b) + '"'
