"""Vocabulary and activations of the coverage-guided campaign (vf.fuzz_cel); importable without atheris, so that replays of its findings need only the check."""

from __future__ import annotations

from celpy import celtypes as ct

VOCAB = [
    # literals
    "0", "1", "2", "-1", "9223372036854775807", "-9223372036854775808", "0x1F", "1u", "0u", "18446744073709551615u", "1.5", "1e3", ".5", "1e400", "0.0", "-0.0",
    "'a'", "''", '"b"', "'ab'", "'''c\nd'''", "r'\\d+'", "b'x'", "b''", "b'\\xff'", "'\\u00e9'", "'\\U0001F431'", "true", "false", "null",
    # names: bound, dotted, unbound
    "x", "y", "s", "l", "m", "n", "b", "d", "ts", "du", "a.b", "a.b.c", "p.v", "undefined", "_", ".x",
    # punctuation and operators
    "(", ")", "[", "]", "{", "}", ".", ",", ":", "?", "+", "-", "*", "/", "%", "!", "<", "<=", ">", ">=", "==", "!=", "&&", "||", " in ",
    # functions, methods, macros
    "size", "int", "uint", "double", "string", "bytes", "bool", "type", "dyn", "duration", "timestamp", "matches", "contains", "startsWith", "endsWith", "has",
    "map", "filter", "all", "exists", "exists_one", "getFullYear", "getMonth", "getDate", "getDayOfMonth", "getDayOfWeek", "getDayOfYear", "getHours", "getMinutes",
    "getSeconds", "getMilliseconds", "list", "nofunc", "google.protobuf.Int64Value", "google.protobuf.Struct", "value",
    # type names
    "int", "uint", "double", "bool", "string", "bytes", "list", "map", "null_type", "type", "google.protobuf.Timestamp", "google.protobuf.Duration",
    # common shapes (so that the mutator can splice whole, valid pieces)
    "l.map(i, i)", "l.filter(i, i > x)", "l.all(i, i > 0)", "l.exists(i, i == x)", "l.exists_one(i, i == 1)", "m.a", "m['a']", "has(m.a)", "has(m.zz)", "l[0]", "l[x]",
    "x > 0 ? x : y", "1 / 0", "1 / 0 == 1", "x / y", "x % y", "s.size()", "size(l)", "timestamp('2009-02-13T23:31:30Z')", "duration('90s')", "ts + du", "ts - ts",
    "'2009-02-13T23:31:30Z'", "'1h'", "'+01:00'", "'America/New_York'", "type(x)", "int(s)", "string(x)", "bytes(s)", "double(x)", "uint(x)", "{'a': 1}", "[1, 2]", "{}", "[]",
    # trouble
    "'", '"', "'''", "\\", "\n", " ", "\t", "//c\n", "0x", "1.e", "9223372036854775808", "..", "for", "as", "while", "é", "\U0001f431", "\x00", "=", "&", "|", "1true", "a.true",
]


def activations():
    import datetime

    def L(*xs):
        return ct.ListType(list(xs))

    return [
        {},
        {"x": ct.IntType(1), "y": ct.IntType(0), "s": ct.StringType("ab"), "l": L(ct.IntType(1), ct.IntType(2), ct.IntType(3)), "m": ct.MapType({ct.StringType("a"): ct.IntType(1)}),
         "n": None, "b": ct.BoolType(True), "d": ct.DoubleType(1.5), "ts": ct.TimestampType("2009-02-13T23:31:30Z"), "du": ct.DurationType(datetime.timedelta(seconds=90)),
         "a.b": ct.IntType(10), "p.v": ct.IntType(3)},
        {"x": ct.IntType(-9223372036854775808), "y": ct.IntType(-1), "s": ct.StringType(""), "l": L(), "m": ct.MapType({}), "n": None, "b": ct.BoolType(False),
         "d": ct.DoubleType(float("nan")), "ts": ct.TimestampType("0001-01-01T00:00:00Z"), "du": ct.DurationType(datetime.timedelta(0)), "a.b.c": ct.StringType("deep")},
        {"x": ct.UintType(18446744073709551615), "y": ct.DoubleType(0.0), "s": ct.BytesType(b"\xff"), "l": L(ct.StringType("a"), None, L()), "m": ct.MapType({ct.StringType("a"): None, ct.StringType("zz"): L()}),
         "n": ct.MapType({}), "b": ct.IntType(1), "d": ct.StringType("1.5"), "ts": ct.StringType("2009"), "du": ct.IntType(90), "a": ct.MapType({ct.StringType("b"): ct.IntType(7)})},
    ]
