"""Entry point: python -m vf.main C07 --tier quick|thorough [--replay FILE]."""

from __future__ import annotations

import argparse
import importlib
import os
import sys
import traceback

from vf import common


def main(argv=None) -> int:
    ap = argparse.ArgumentParser()
    ap.add_argument("pid")
    ap.add_argument("--tier", default=os.environ.get("VERIF_TIER", "quick"), choices=["quick", "thorough"])
    ap.add_argument("--replay", default=None)
    ap.add_argument("--seed", type=int, default=None)
    args = ap.parse_args(argv)
    seed = args.seed if args.seed is not None else int(os.environ.get("VERIF_SEED", "1") or "1")
    pid = args.pid.upper()
    common.quiet_logging()
    sys.setrecursionlimit(2500)  # what celpy.Environment() sets anyway; doing it first keeps Hypothesis quiet
    import warnings

    warnings.filterwarnings("ignore", message=".*recursion limit.*")
    try:
        mod = importlib.import_module(f"checks.{pid.lower()}")
    except Exception:
        traceback.print_exc()
        print(f"HARNESS-ERROR property={pid} cannot import check module")
        return 2
    try:
        if args.replay:
            doc = common.load_replay(args.replay)
            run = common.Run(pid, args.tier, seed, getattr(mod, "RULE", ""))
            problems = mod.replay(run, doc["case"], doc.get("key", ""))
            if problems:
                for key, detail in problems:
                    known = run.is_known(key)
                    tag = "KNOWN-FINDING:" if known else "VIOLATION"
                    print(f"{tag} property={pid} replay={args.replay}")
                    print(f"  key={key} detail={detail[:800]}")
                return 0 if all(run.is_known(k) for k, _ in problems) else 1
            print(f"[{pid}] replay {args.replay}: property holds on this case")
            return 0
        run = common.Run(pid, args.tier, seed, getattr(mod, "RULE", ""), getattr(mod, "LEVEL", "exploration"))
        mod.main(run)
        return run.finish()
    except common.HarnessError as ex:
        print(f"HARNESS-ERROR property={pid} {ex}")
        return 2
    except Exception:
        traceback.print_exc()
        print(f"HARNESS-ERROR property={pid} unexpected exception in the check itself")
        return 2


if __name__ == "__main__":
    sys.exit(main())
