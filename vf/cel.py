"""Thin driver around the public celpy API: build an Environment for either runner, evaluate, classify the outcome."""

from __future__ import annotations

import sys
from typing import Any, Dict, Optional, Tuple

import celpy
from celpy import celtypes
from celpy.celparser import CELParseError, CELParser
from celpy.evaluation import CELEvalError

from vf import outcome

RUNNERS = {"I": celpy.InterpretedRunner, "C": celpy.CompiledRunner}

_parsers: Dict[type, Any] = {}


def fresh_parser_for(runner_cls: type) -> None:
    """Give each runner kind its own lark parser (the singleton keeps the first tree class:
    sharing one between runner kinds is C05's subject, not that of the other properties).
    Parsers are cached per tree class so the grammar is compiled at most twice per process."""
    if hasattr(CELParser, "_parsers"):
        return  # the library keeps one parser per tree class itself
    tc = runner_cls.tree_node_class
    CELParser.CEL_PARSER = _parsers.get(tc)
    if CELParser.CEL_PARSER is None:
        CELParser(tree_class=tc)
        _parsers[tc] = CELParser.CEL_PARSER


def env(runner: str = "I", annotations: Optional[dict] = None, package: Optional[str] = None) -> celpy.Environment:
    rc = RUNNERS[runner]
    fresh_parser_for(rc)
    return celpy.Environment(package=package, annotations=dict(annotations) if annotations else None, runner_class=rc)


def evaluate(
    src: str,
    bindings: Optional[dict] = None,
    runner: str = "I",
    annotations: Optional[dict] = None,
    package: Optional[str] = None,
    functions: Any = None,
    want_value: bool = False,
) -> Any:
    """Compile, build, evaluate; return the Outcome tuple (and the raw value/exception if want_value)."""
    raw: Any = None
    try:
        e = env(runner, annotations, package)
    except Exception as ex:  # pragma: no cover
        o = ("crash", type(ex).__name__, "environment")
        return (o, ex) if want_value else o
    try:
        ast = e.compile(src)
    except CELParseError as ex:
        o = ("parse_error", ex.line, ex.column)
        return (o, ex) if want_value else o
    except RecursionError as ex:
        o = ("crash", "RecursionError", "compile")
        return (o, ex) if want_value else o
    except Exception as ex:
        o = ("crash", type(ex).__name__, "compile")
        return (o, ex) if want_value else o
    try:
        prgm = e.program(ast, functions=functions)
    except Exception as ex:
        o = ("crash", type(ex).__name__, "program")
        return (o, ex) if want_value else o
    try:
        raw = prgm.evaluate(dict(bindings) if bindings else {})
        o = outcome.value_outcome(raw)
    except CELEvalError as ex:
        raw = ex
        o = ("error",)
    except Exception as ex:
        raw = ex
        o = ("crash", type(ex).__name__, "evaluate")
    return (o, raw) if want_value else o


def both(src: str, bindings: Optional[dict] = None, **kw: Any) -> Tuple[Any, Any]:
    return evaluate(src, bindings, "I", **kw), evaluate(src, bindings, "C", **kw)


# ---------------------------------------------------------------------------
# Cached programs: compile once, evaluate many times with different bindings.

_PROGRAMS: Dict[Tuple[str, str], Any] = {}


def program(runner: str, src: str, functions: Any = None) -> Any:
    key = (runner, src)
    p = _PROGRAMS.get(key)
    if p is None:
        e = env(runner)
        p = e.program(e.compile(src), functions=functions)
        _PROGRAMS[key] = p
    return p


def run_cached(runner: str, src: str, bindings: dict, want_value: bool = False) -> Any:
    """Outcome of a cached program on bindings."""
    try:
        p = program(runner, src)
    except CELParseError as ex:
        o = ("parse_error", ex.line, ex.column)
        return (o, ex) if want_value else o
    except Exception as ex:
        o = ("crash", type(ex).__name__, "program")
        return (o, ex) if want_value else o
    try:
        raw = p.evaluate(dict(bindings))
        o = outcome.value_outcome(raw)
    except CELEvalError as ex:
        raw, o = ex, ("error",)
    except Exception as ex:
        raw, o = ex, ("crash", type(ex).__name__, "evaluate")
    return (o, raw) if want_value else o
