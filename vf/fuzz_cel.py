"""Coverage-guided campaign (atheris / libFuzzer) over compile + evaluate under both runners, with the C04 and C03 oracles inside the target.

Run as a subprocess by the thorough tiers of C04 and C03:
    python -m vf.fuzz_cel <findings.json> <corpus dir> -runs=N -seed=S [-max_len=L]
The input bytes are decoded by a data-provider layer into (a) raw Unicode text (attacks the lexer / parser) or (b) a sequence of CEL tokens from a
vocabulary of every terminal, built-in function, macro and bound name (reaches the evaluators instead of dying in the lexer), plus the choice of an
activation. Coverage feedback comes from the instrumented celpy package only. The oracles are those of the checks (checks.c04.check_compile /
check_eval_src: a value or a CEL error, never another exception, positions inside the text; checks.c03.check_src: both runners agree), so a
"crash-free" campaign means the properties held, not merely that Python did not die.

Findings are collected by root-cause key and the campaign CONTINUES (libFuzzer would stop at the first crash): the first input of every key is
written to <findings.json> immediately (atexit handlers do not run under libFuzzer); the parent check re-runs every finding through the check's
own replay() in its own process before it reports anything, so state leaking between fuzz iterations cannot produce a report.
"""

from __future__ import annotations

import json
import logging
import os
import sys

import atheris

logging.disable(logging.CRITICAL)
with atheris.instrument_imports(include=["celpy"]):
    import celpy  # noqa: F401
    import celpy.celparser  # noqa: F401
    import celpy.celtypes  # noqa: F401
    import celpy.evaluation  # noqa: F401

from checks import c03, c04  # noqa: E402
from vf import common  # noqa: E402

from vf.fuzzdata import VOCAB, activations as _activations  # noqa: E402


class Collector:
    """A stand-in for common.Run inside the fuzz target: counts, and keeps the first case of every root-cause key."""

    def __init__(self, out_path: str) -> None:
        self.out_path = out_path
        self.findings = {}
        self.iterations = 0
        self.evaluated = 0
        self.distinct = set()

    # the parts of common.Run the check functions use
    def tick(self, n: int = 1) -> None:
        self.evaluated += n

    def nt(self, key) -> None:
        if len(self.distinct) < 2_000_000:
            self.distinct.add(hash(repr(key)))

    def event(self, name: str, n: int = 1) -> None:
        pass

    def sample(self, *a, **k) -> None:
        pass

    def report(self, key: str, case: dict, detail: str) -> None:
        if key not in self.findings:
            self.findings[key] = {"key": key, "case": case, "detail": detail[:400]}
            self.flush()

    def flush(self) -> None:
        doc = {"iterations": self.iterations, "evaluated": self.evaluated, "distinct_nontrivial": len(self.distinct), "findings": list(self.findings.values())}
        tmp = self.out_path + ".tmp"
        with open(tmp, "w") as f:
            json.dump(doc, f, default=repr)
        os.replace(tmp, self.out_path)


COLLECT: Collector
ACTS = []


def TestOneInput(data: bytes) -> None:
    fdp = atheris.FuzzedDataProvider(data)
    mode = fdp.ConsumeIntInRange(0, 4)
    ai = fdp.ConsumeIntInRange(0, len(ACTS) - 1)
    act = ACTS[ai]
    if mode == 0:
        text = fdp.ConsumeUnicodeNoSurrogates(64)
    else:
        sep = " " if mode in (1, 2) else ""
        n = fdp.ConsumeIntInRange(1, 24)
        text = sep.join(VOCAB[fdp.ConsumeIntInRange(0, len(VOCAB) - 1)] for _ in range(n))
    COLLECT.iterations += 1
    try:
        c04.check_compile(COLLECT, text, COLLECT.report)
        c04.check_eval_src(COLLECT, text, act, {"src": text, "fuzz_activation": ai}, COLLECT.report)
        c03.check_src(COLLECT, text, act, {"src": text, "fuzz_activation": ai}, COLLECT.report)
    except RecursionError:
        COLLECT.report("fuzz-harness-RecursionError", {"src": text}, "RecursionError outside the guarded calls")
    if COLLECT.iterations % 500 == 0:
        COLLECT.flush()


def main() -> None:
    global COLLECT, ACTS
    out = sys.argv[1]
    sys.setrecursionlimit(2500)
    COLLECT = Collector(out)
    ACTS = _activations()
    COLLECT.flush()
    atheris.Setup([sys.argv[0]] + sys.argv[2:], TestOneInput)
    atheris.Fuzz()


if __name__ == "__main__":
    main()
