"""lark parse tree -> vf.ir node (so that corpus / mutated source strings can be localised like generated programs).

Anything the IR has no node for (message literals, odd shapes) becomes ("raw", <source slice>, level) — still renderable.
"""

from __future__ import annotations

from typing import Any, Optional, Tuple

import lark

from vf import cel, ir

REL = {"relation_lt": "<", "relation_le": "<=", "relation_gt": ">", "relation_ge": ">=", "relation_eq": "==", "relation_ne": "!=", "relation_in": "in"}
ADD = {"addition_add": "+", "addition_sub": "-"}
MUL = {"multiplication_mul": "*", "multiplication_div": "/", "multiplication_mod": "%"}
MACROS = {"map", "filter", "all", "exists", "exists_one"}


def parse(src: str) -> Optional[Tuple]:
    e = cel.env("I")
    try:
        tree = e.compile(src)
    except Exception:
        return None
    try:
        return conv(tree, src)
    except Exception:
        return None


def raw(t: Any, src: str, level: int = ir.MEMBER) -> Tuple:
    return ("raw", src[t.meta.start_pos : t.meta.end_pos], level)


def conv(t: Any, src: str) -> Tuple:
    d = t.data
    ch = t.children
    if d == "expr":
        if len(ch) == 1:
            return conv(ch[0], src)
        return ("cond", conv(ch[0], src), conv(ch[1], src), conv(ch[2], src))
    if d in ("conditionalor", "conditionaland"):
        if len(ch) == 1:
            return conv(ch[0], src)
        return ("bin", "||" if d == "conditionalor" else "&&", conv(ch[0], src), conv(ch[1], src))
    if d in ("relation", "addition", "multiplication"):
        if len(ch) == 1:
            return conv(ch[0], src)
        opnode, right = ch
        op = {**REL, **ADD, **MUL}[opnode.data]
        return ("bin", op, conv(opnode.children[0], src), conv(right, src))
    if d == "unary":
        if len(ch) == 1:
            return conv(ch[0], src)
        return ("un", "!" if ch[0].data == "unary_not" else "-", conv(ch[1], src))
    if d in ("member", "primary"):
        return conv(ch[0], src)
    if d == "member_dot":
        return ("select", conv(ch[0], src), str(ch[1]))
    if d == "member_dot_arg":
        recv = conv(ch[0], src)
        name = str(ch[1])
        args = list(ch[2].children) if len(ch) == 3 else []
        if name in MACROS and len(args) == 2:
            v = ident_name(args[0])
            if v is not None:
                return ("macro", recv, name, v, conv(args[1], src))
        return ("method", recv, name, tuple(conv(a, src) for a in args))
    if d == "member_index":
        return ("index", conv(ch[0], src), conv(ch[1], src))
    if d == "member_object":
        inits = ()
        if len(ch) == 2:
            fi = ch[1].children
            inits = tuple((str(fi[i]), conv(fi[i + 1], src)) for i in range(0, len(fi), 2))
        return ("msg", conv(ch[0], src), inits)
    if d == "literal":
        return ("raw", str(ch[0]), ir.MEMBER)
    if d == "ident":
        return ("var", str(ch[0]))
    if d == "dot_ident":
        return ("dotvar", str(ch[0]))
    if d == "dot_ident_arg":
        args = list(ch[1].children) if len(ch) == 2 else []
        return ("dotcall", str(ch[0]), tuple(conv(a, src) for a in args))
    if d == "ident_arg":
        name = str(ch[0])
        args = list(ch[1].children) if len(ch) == 2 else []
        if name == "has" and len(args) == 1:
            inner = strip(args[0])
            if isinstance(inner, lark.Tree) and inner.data == "member_dot":
                return ("has", conv(inner.children[0], src), str(inner.children[1]))
        return ("call", name, tuple(conv(a, src) for a in args))
    if d == "paren_expr":
        return ("paren", conv(ch[0], src))
    if d == "list_lit":
        return ("list", tuple(conv(a, src) for a in ch[0].children) if ch else ())
    if d == "map_lit":
        if not ch:
            return ("map", ())
        kv = ch[0].children
        return ("map", tuple((conv(kv[i], src), conv(kv[i + 1], src)) for i in range(0, len(kv), 2)))
    return raw(t, src)


def strip(t: Any) -> Any:
    while isinstance(t, lark.Tree) and len(t.children) == 1 and isinstance(t.children[0], lark.Tree) and t.data in (
        "expr", "conditionalor", "conditionaland", "relation", "addition", "multiplication", "unary", "member", "primary"):
        t = t.children[0]
    return t


def ident_name(t: Any) -> Optional[str]:
    t = strip(t)
    if isinstance(t, lark.Tree) and t.data == "ident":
        return str(t.children[0])
    return None
