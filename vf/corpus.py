"""Every `When CEL expression <python-string-literal> is evaluated` of /repo/features/*.feature, as programs (never as expectations)."""

from __future__ import annotations

import ast
import re
from functools import lru_cache
from pathlib import Path
from typing import List

from vf.common import REPO

PAT = re.compile(r"^\s*When CEL expression (.+) is evaluated\s*$")


# A small hand-written supplement: one expression per kind of runtime failure / edge the generators reach only rarely.
EDGE = [
    # conversions of texts and values that are almost right
    "bool('maybe')", "bool('TRUE')", "bool('yes')", "bool('')", "bool('True')", "bool('t')", "bool(1)", "bool(null)", "bool(1.0)", "bool('false') || true",
    # a container indexed by boundary scalars of every kind
    "[7, 8][9223372036854775808.0]", "[7, 8][1e19]", "[7, 8][-1e300]", "[7, 8][0.0]", "[7, 8][1.0]", "[7, 8][0.5]", "[7, 8][-0.0]", "[7, 8][18446744073709551615u]", "[7, 8][1u]",
    "[7, 8][9223372036854775807]", "[7, 8][-9223372036854775808]", "[7, 8][true]", "[7, 8][null]", "[7, 8]['0']", "{1: 2}[1.0]", "{1: 2}[1e19]", "{'a': 2}[0]", "'ab'[1e19]", "'ab'[0]",
    "[7, 8][dyn(1e19)] == 7 || true", "[1e19, 0.0].map(d, [7, 8][d])",
    "-(-9223372036854775808)", "9223372036854775807 + 1", "-9223372036854775808 - 1", "-9223372036854775808 / -1", "-9223372036854775808 % -1",
    "9223372036854775807 * 2", "1 / 0", "1 % 0", "1u / 0u", "1u - 2u", "18446744073709551615u + 1u", "1.0 / 0.0", "-1.0 / 0.0", "0.0 / 0.0",
    "[1][1]", "[1, 2][-1]", "{}['a']", "{'a': 1}.b", "{1: 1, 1: 2}", "{[1]: 1}", "'a'.matches('(')", "int('x')", "uint('-1')", "double('x')",
    "timestamp('x')", "duration('x')", "string(b'\\xff')", "uint(-1)", "int(1e300)", "uint(1e300)", "int(18446744073709551615u)", "int(-1.0e300)",
    "[1].map()", "[1].map(x)", "[1].exists(i, v, true)", "[1].filter(x, x, x)", "(1).map(x, x)", "null.all(x, true)", "'abc'.exists(c, true)",
    "'abc'.f", "(1).f", "has('abc'.f)", "has({}.a)", "!has({'a': 1}.a)", "has({'a': 1}.a) && has({'a': 1}.b)", "has({'a': 1}.a) ? 1 : 2",
    "dyn(1) + dyn('a')", "-(1u)", "!1", "-'a'", "1 < 'a'", "[1] < [2]", "{} < {}", "null < null", "1 in 1", "size(1)", "size()", "nofunc()", "nofunc(1, 2)",
    "x.y.z", ".x", "true ? 1 : 'a'", "1 ? 2 : 3", "duration('1h').getHours('UTC')", "timestamp('2009-02-13T23:31:30Z').getHours('nowhere')",
    "b'\\922'", "'\\922'", "007", "007u", "0x10", "-0x10", "1e400", "1.0e-400", "dyn(-9223372036854775809.0) < -9223372036854775808",
    "timestamp('0001-01-01T00:00:00Z') - duration('1s')", "timestamp('9999-12-31T23:59:59Z') + duration('1s')", "duration('315576000000s') + duration('1s')",
    "duration('315576000000s') - duration('-1s')", "timestamp('2009-02-13T23:31:30Z') + 1", "[1] + 1", "'a' + 1", "b'a' + 'a'", "1 + 1u", "1 + 1.0",
    "[1, 'a'] == [1, 'a']", "{'a': 1} == {'a': 1.0}", "type(1) == type(1u)", "type(type(1))", "[] + []", "{} == {}", "[[]] == [[]]",
    "1 == 1.0 || true", "(1 / 0 == 1) || (1 / 0 == 1)", "(1 / 0 == 1) && (1 / 0 == 1)", "1 / 0 == 1 ? 1 : 2", "[1, 2].map(x, x / 0)", "[1, 2].filter(x, x / 0 == 1)",
    "[1, 2].map(x, [10, 20].map(x, x))", "[[1], [2]].map(x, x.map(x, x + 1))", "[1, 2].filter(x, [2, 3].exists(x, x == 3))", "[1, 2].map(x, [x].map(y, x + y))",
    "[1, 2].exists(x, [x].all(x, x > 1))", "[[1, 2], [3]].map(l, l.filter(l, l > 1))", "[1].map(x, [2].map(y, [3].map(x, x + y)))",
    "google.protobuf.Struct{a: 1}.b", "has(google.protobuf.Struct{a: 1}.b)", "google.protobuf.Struct{}.a || true",
    "[0, 0, 5].all(i, 4 / i > 1)", "[0, 0, 1].exists(i, 4 / i > 1)", "[1].exists_one(x, x / 0 == 1)", "[[1]].map(x, x.map(y, y + 1))", "[1].map(x, [x].map(x, x + 1))",
]


@lru_cache(maxsize=1)
def expressions() -> List[str]:
    out, seen = list(EDGE), set(EDGE)
    for f in sorted((REPO / "features").glob("*.feature")):
        for line in f.read_text(encoding="utf-8", errors="replace").splitlines():
            m = PAT.match(line)
            if not m:
                continue
            try:
                s = ast.literal_eval(m.group(1))
            except Exception:
                continue
            if isinstance(s, str) and s not in seen:
                seen.add(s)
                out.append(s)
    return out
