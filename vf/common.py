"""Shared plumbing for every check: tiers, seeds, evidence, replays, known findings, exit codes.

Exit codes: 0 property held on everything explored (KNOWN-FINDING lines allowed),
1 violation (with a ``VIOLATION property=<id> replay=<path>`` line), 2 harness problem.
"""

from __future__ import annotations

import collections
import hashlib
import json
import os
import sys
import time
import traceback
from pathlib import Path
import re
from typing import Any, Callable, Dict, List, Optional, Tuple

ROOT = Path(__file__).resolve().parent.parent
THOROUGH_SCALE = float(os.environ.get("VERIF_THOROUGH_SCALE", "0.05"))
REPO = Path(os.environ.get("VERIF_REPO", "/repo"))
KNOWN_FILE = ROOT / "known_findings.json"
MAX_SAMPLES = 10


class Found(Exception):
    """Raised inside a Hypothesis body for a failing case whose root-cause key is not a known finding."""

    def __init__(self, key: str, case: Any, detail: str = "") -> None:
        super().__init__(f"{key}: {detail} :: {case!r}"[:2000])
        self.key = key
        self.case = case
        self.detail = detail


class HarnessError(Exception):
    """A problem of the machinery itself (exit 2, never a violation)."""


def jsonable(x: Any) -> Any:
    """Best-effort conversion of a case to something json.dump accepts."""
    if isinstance(x, (str, int, bool)) or x is None:
        if isinstance(x, int) and not isinstance(x, bool):
            return int(x)
        return x
    if isinstance(x, float):
        if x != x or x in (float("inf"), float("-inf")):
            return {"$float": repr(x)}
        if x == 0.0 and str(x).startswith("-"):
            return {"$float": "-0.0"}
        return x
    if isinstance(x, bytes):
        return {"$bytes": x.hex()}
    if isinstance(x, (list, tuple)):
        return [jsonable(i) for i in x]
    if isinstance(x, dict):
        if all(isinstance(k, str) for k in x):
            return {k: jsonable(v) for k, v in x.items()}
        return {"$map": [[jsonable(k), jsonable(v)] for k, v in x.items()]}
    if isinstance(x, (set, frozenset)):
        return {"$set": sorted((jsonable(i) for i in x), key=repr)}
    return {"$repr": repr(x)}


def unjson(x: Any) -> Any:
    if isinstance(x, list):
        return [unjson(i) for i in x]
    if isinstance(x, dict):
        if set(x) == {"$float"}:
            return float(x["$float"])
        if set(x) == {"$bytes"}:
            return bytes.fromhex(x["$bytes"])
        if set(x) == {"$map"}:
            return {_hashable(unjson(k)): unjson(v) for k, v in x["$map"]}
        if set(x) == {"$set"}:
            return set(_hashable(unjson(i)) for i in x["$set"])
        return {k: unjson(v) for k, v in x.items()}
    return x


def _hashable(x: Any) -> Any:
    if isinstance(x, list):
        return tuple(_hashable(i) for i in x)
    return x


def short_hash(x: Any) -> str:
    return hashlib.sha1(json.dumps(jsonable(x), sort_keys=True, default=repr).encode()).hexdigest()[:10]


def load_known() -> Dict[str, Any]:
    if not KNOWN_FILE.exists():
        return {"findings": [], "fixed": []}
    return json.loads(KNOWN_FILE.read_text())


class Run:
    """Counters and verdict collection for one check run (or one shard of it)."""

    def __init__(self, pid: str, tier: str, seed: int, rule: str = "", level: str = "exploration") -> None:
        self.pid = pid
        self.tier = tier
        self.seed = seed
        self.rule = rule
        self.level = level
        self.t0 = time.time()
        self.evaluations = 0
        self.nontrivial: set = set()
        self.samples: List[Any] = []
        self._sample_keys: set = set()
        self.classes: collections.Counter = collections.Counter()
        self.excluded_known: collections.Counter = collections.Counter()
        self.known_samples: Dict[str, Any] = {}
        self.violations: Dict[str, Dict[str, Any]] = {}
        self.assumptions: List[str] = []
        self.extra: Dict[str, Any] = {}
        self.exhaustive: Optional[bool] = None
        self.notes: List[str] = []
        known = load_known()
        # A finding is identified by `id`; it matches root-cause keys listed in `keys` (exact) or `key_patterns` (regex, fullmatch).
        self.findings = [f for f in known.get("findings", []) if pid in f.get("properties", [f.get("property")]) and f.get("status", "open") == "open"]
        self.known_open = {f["id"]: f for f in self.findings}
        self._known_cache: Dict[str, Optional[str]] = {}
        # Keys a previous campaign of this same run already reported: skipped so the search continues.
        self.session_excluded: set = set()

    # -- counters ---------------------------------------------------------
    def tick(self, n: int = 1) -> None:
        self.evaluations += n

    def nt(self, case: Any) -> None:
        """Record a non-trivial case (by hash, so the count is of distinct cases)."""
        self.nontrivial.add(short_hash(case))

    def event(self, label: str, n: int = 1) -> None:
        self.classes[label] += n

    def sample(self, x: Any, bucket: str = "") -> None:
        """Keep up to MAX_SAMPLES samples, at most two per bucket so they are varied."""
        if len(self.samples) >= MAX_SAMPLES:
            return
        k = (bucket, sum(1 for b in self._sample_keys if b[0] == bucket))
        if k[1] >= 2:
            return
        self._sample_keys.add(k)
        self.samples.append(jsonable(x))

    # -- verdicts ---------------------------------------------------------
    def known_id(self, key: str) -> Optional[str]:
        import re

        if key not in self._known_cache:
            hit = None
            for f in self.findings:
                if key in f.get("keys", []) or any(re.fullmatch(p, key) for p in f.get("key_patterns", [])):
                    hit = f["id"]
                    break
            self._known_cache[key] = hit
        return self._known_cache[key]

    def is_known(self, key: str) -> bool:
        return self.known_id(key) is not None

    def fail(self, key: str, case: Any, detail: str = "") -> bool:
        """Record a failing case from a plain loop. Returns True if it is a known finding."""
        kid = self.known_id(key)
        if kid is not None:
            self.excluded_known[kid] += 1
            self.known_samples.setdefault(kid, jsonable(case))
            return True
        v = self.violations.setdefault(key, {"case": jsonable(case), "detail": detail, "count": 0})
        v["count"] += 1
        return False

    def hyp_fail(self, key: str, case: Any, detail: str = "") -> None:
        """Inside a Hypothesis body: continue past known findings, raise Found otherwise."""
        kid = self.known_id(key)
        if kid is not None:
            self.excluded_known[kid] += 1
            self.known_samples.setdefault(kid, jsonable(case))
            return
        if key in self.session_excluded:
            self.violations[key]["count"] += 1
            return
        raise Found(key, case, detail)

    def record_found(self, f: Found) -> None:
        v = self.violations.setdefault(f.key, {"case": jsonable(f.case), "detail": f.detail, "count": 0})
        v["count"] += 1
        # Prefer the (smaller) shrunk case.
        v["case"] = jsonable(f.case)
        v["detail"] = f.detail
        self.session_excluded.add(f.key)

    # -- shards -----------------------------------------------------------
    def state(self) -> Dict[str, Any]:
        return {
            "evaluations": self.evaluations,
            "nontrivial": list(self.nontrivial),
            "samples": self.samples,
            "classes": dict(self.classes),
            "excluded_known": dict(self.excluded_known),
            "known_samples": self.known_samples,
            "violations": self.violations,
            "extra": self.extra,
            "notes": self.notes,
        }

    def merge(self, st: Dict[str, Any]) -> None:
        self.evaluations += st["evaluations"]
        self.nontrivial.update(st["nontrivial"])
        for s in st["samples"]:
            if len(self.samples) < MAX_SAMPLES and s not in self.samples:
                self.samples.append(s)
        self.classes.update(st["classes"])
        self.excluded_known.update(st["excluded_known"])
        for k, v in st["known_samples"].items():
            self.known_samples.setdefault(k, v)
        for k, v in st["violations"].items():
            if k in self.violations:
                self.violations[k]["count"] += v["count"]
            else:
                self.violations[k] = v
        for k, v in st.get("extra", {}).items():
            if isinstance(v, int) and isinstance(self.extra.get(k), int):
                self.extra[k] += v
            else:
                self.extra.setdefault(k, v)
        self.notes.extend(st.get("notes", []))

    # -- output -----------------------------------------------------------
    def write_evidence(self) -> Path:
        cov: Dict[str, Any] = {
            "evaluations": int(self.evaluations),
            "distinct_nontrivial": len(self.nontrivial),
            "rule": self.rule,
            "samples": self.samples[:MAX_SAMPLES],
            "classes": dict(sorted(self.classes.items())),
            "excluded_known": dict(sorted(self.excluded_known.items())),
            "known_finding_samples": self.known_samples,
        }
        if self.exhaustive is not None:
            cov["exhaustive"] = self.exhaustive
        if self.notes:
            cov["notes"] = self.notes[:20]
        cov.update(self.extra)
        doc = {
            "property_id": self.pid,
            "tier": self.tier,
            "seed": int(self.seed),
            "level": self.level,
            "coverage": cov,
            "assumptions": self.assumptions,
            "wall_s": round(time.time() - self.t0, 3),
            "violations": len(self.violations),
        }
        out = ROOT / "evidence" / f"{self.pid}.json"
        out.parent.mkdir(exist_ok=True)
        tmp = out.with_suffix(".json.tmp")
        tmp.write_text(json.dumps(doc, indent=1, sort_keys=False, default=repr) + "\n")
        tmp.replace(out)
        return out

    def finish(self) -> int:
        self.write_evidence()
        for key, f in sorted(self.known_open.items()):
            n = self.excluded_known.get(key, 0)
            seen = f"observed {n}x this run" if n else "not re-observed in this run"
            print(f"KNOWN-FINDING: property={self.pid} [{key}] {f.get('what', '')} ({seen})")
        rc = 0
        for key, v in sorted(self.violations.items()):
            path = write_replay(self.pid, key, v["case"], v.get("detail", ""))
            print(f"VIOLATION property={self.pid} replay={path}")
            print(f"  key={key} count={v['count']} detail={v.get('detail', '')[:600]}")
            print(f"  case={json.dumps(v['case'], default=repr)[:1200]}")
            rc = 1
        dt = time.time() - self.t0
        print(
            f"[{self.pid}] tier={self.tier} seed={self.seed} evaluations={self.evaluations} "
            f"distinct_nontrivial={len(self.nontrivial)} known={sum(self.excluded_known.values())} "
            f"violations={len(self.violations)} wall={dt:.1f}s"
        )
        return rc


def write_replay(pid: str, key: str, case: Any, detail: str = "") -> Path:
    d = ROOT / "found" / pid
    d.mkdir(parents=True, exist_ok=True)
    safe = "".join(c if c.isalnum() or c in "-_." else "_" for c in key)[:80]
    p = d / f"{safe}-{short_hash(case)}.json"
    p.write_text(json.dumps({"property": pid, "key": key, "detail": detail, "case": jsonable(case)}, indent=1, default=repr) + "\n")
    return p


def committed_replays(pid: str) -> List[Path]:
    d = ROOT / "replays" / pid
    if not d.is_dir():
        return []
    return sorted(d.glob("*.json"))


def load_replay(path: Path) -> Dict[str, Any]:
    doc = json.loads(Path(path).read_text())
    doc["case"] = unjson(doc["case"])
    return doc


# ---------------------------------------------------------------------------
# Hypothesis driving


def hyp_settings(max_examples: int, shrink: bool = True, **kw: Any):
    import hypothesis
    from hypothesis import HealthCheck, Phase, settings

    if not shrink:
        kw["phases"] = [Phase.explicit, Phase.reuse, Phase.generate]

    return settings(
        max_examples=max_examples,
        database=None,
        deadline=None,
        derandomize=False,
        report_multiple_bugs=False,
        print_blob=False,
        suppress_health_check=[HealthCheck.too_slow, HealthCheck.data_too_large, HealthCheck.filter_too_much],
        **kw,
    )


CHUNK = 2500


def drive(run: Run, test_fn: Callable[..., None], strategy_args: Dict[str, Any], max_examples: int, seed_salt: int = 0,
          reruns: int = 4, **setkw: Any) -> None:
    """Run a Hypothesis campaign in chunks of at most CHUNK examples (Hypothesis keeps a tree of everything it generated in one
    run; chunking bounds its memory and makes the cost linear). Each chunk has its own derived seed."""
    if run.tier == "thorough":
        # the per-campaign sizes written in the checks were chosen before the campaigns multiplied; the whole thorough tier is scaled to stay near
        # ten minutes per property on 16 cores (VERIF_THOROUGH_SCALE=1 runs the sizes as written)
        max_examples = max(1, int(max_examples * THOROUGH_SCALE))
    done = 0
    c = 0
    while done < max_examples:
        n = min(CHUNK, max_examples - done)
        _drive_chunk(run, test_fn, strategy_args, n, seed_salt * 131 + c, reruns, **dict(setkw))
        done += n
        c += 1
        if len(run.violations) >= 8:
            run.notes.append("campaign cut short: 8 distinct root causes already reported")
            return


def _drive_chunk(run: Run, test_fn: Callable[..., None], strategy_args: Dict[str, Any], max_examples: int, seed_salt: int = 0,
                 reruns: int = 4, **setkw: Any) -> None:
    """Run one Hypothesis campaign of ``test_fn`` under the run's seed; collect Found failures and continue."""
    import hypothesis
    from hypothesis import given

    for attempt in range(reruns + 1):
        seed = (run.seed * 1_000_003 + seed_salt * 101 + attempt) & 0xFFFFFFFF
        # thorough tier: no shrink phase (Hypothesis' shrinker can spend 5 minutes per failure; the checks localise the
        # root cause themselves and the unshrunk case is a valid replay). quick tier shrinks.
        shrink = setkw.pop("shrink", run.tier == "quick")
        first_found: List[Found] = []

        def remembering(**k: Any) -> None:
            try:
                test_fn(**k)
            except Found as f:
                if not first_found:
                    first_found.append(f)
                raise

        wrapped = hypothesis.seed(seed)(hyp_settings(max_examples, shrink=shrink, **setkw)(given(**strategy_args)(remembering)))
        try:
            wrapped()
            return
        except Found as f:
            run.record_found(f)
            continue
        except hypothesis.errors.FailedHealthCheck as ex:  # generator problem: harness error
            raise HarnessError(f"health check: {ex}") from ex
        except hypothesis.errors.Unsatisfiable as ex:
            raise HarnessError(f"unsatisfiable: {ex}") from ex
        except hypothesis.errors.Flaky as ex:
            # The body was not a pure function of its input. If it had reported a violation of the property when it was first run, that
            # observation stands: the library gave that outcome for that input, and giving another one on re-execution means it carries
            # state from one evaluation to the next in this process. Without such an observation it is a harness problem.
            if first_found:
                f = first_found[0]
                run.notes.append("a violation was observed once and not on immediate re-execution of the same case: state carried between evaluations in one process")
                run.record_found(Found(f.key, dict(f.case, not_reproduced_on_reexecution=True) if isinstance(f.case, dict) else f.case, f.detail))
                continue
            raise HarnessError(f"flaky: {ex}") from ex
        except Exception as ex:
            # Hypothesis' shrinker itself failed (seen: ValueError in intervalsets.index on text strategies) after the body had
            # reported a violation: keep the unshrunk violation instead of losing it.
            if first_found and "hypothesis" in _innermost_file(ex):
                run.notes.append(f"hypothesis shrinker failed with {type(ex).__name__}; kept the unshrunk case")
                run.record_found(first_found[0])
                continue
            raise


def _innermost_file(ex: BaseException) -> str:
    tb = ex.__traceback__
    last = ""
    while tb is not None:
        last = tb.tb_frame.f_code.co_filename
        tb = tb.tb_next
    return last


def run_sharded(pid: str, tier: str, seed: int, campaign: Callable[[Run], None], shards: int, rule: str = "") -> List[Dict[str, Any]]:
    """Run ``campaign`` in ``shards`` processes with derived seeds; return their states."""
    import multiprocessing as mp

    ctx = mp.get_context("fork")
    with ctx.Pool(min(shards, os.cpu_count() or 1)) as pool:
        res = pool.starmap(_shard_entry, [(pid, tier, seed * 1000 + i + 1, campaign, rule) for i in range(shards)])
    out = []
    for st in res:
        if "harness_error" in st:
            raise HarnessError(st["harness_error"])
        out.append(st)
    return out


def _shard_entry(pid: str, tier: str, seed: int, campaign: Callable[[Run], None], rule: str) -> Dict[str, Any]:
    try:
        r = Run(pid, tier, seed, rule)
        campaign(r)
        return r.state()
    except HarnessError as ex:
        return {"harness_error": str(ex)}
    except Exception:  # pragma: no cover
        return {"harness_error": traceback.format_exc()}


def quiet_logging() -> None:
    import logging

    logging.disable(logging.CRITICAL)


def fuzz_campaign(run: Run, replay_fn: Callable[[Run, dict, str], List[Tuple[str, str]]], workers: int, runs: int, max_len: int = 256) -> Dict[str, Any]:
    """Coverage-guided supplement (atheris / libFuzzer, vf.fuzz_cel) for the thorough tiers of C03 / C04: ``workers`` independent processes with derived
    libFuzzer seeds, half starting from an empty corpus and half from small valid inputs; every finding is re-run through the check's own
    ``replay_fn`` in this process and only what reproduces there is reported. Returns campaign statistics; {} (with an event) when atheris is missing."""
    import shutil
    import subprocess
    import tempfile

    root = str(ROOT)
    deps = os.path.join(root, ".deps")
    env = dict(os.environ)
    env["PYTHONPATH"] = os.pathsep.join([p for p in env.get("PYTHONPATH", "").split(os.pathsep) if p] + [deps])
    probe = subprocess.run([sys.executable, "-c", "import atheris"], env=env, capture_output=True)
    if probe.returncode != 0:
        run.event("fuzz-skipped-atheris-missing")
        return {}
    os.makedirs(os.path.join(root, ".cache"), exist_ok=True)
    base = tempfile.mkdtemp(prefix="fuzz-", dir=os.path.join(root, ".cache"))
    procs = []
    try:
        from vf import corpus as _corpus

        seeds_text = [e for e in _corpus.expressions() if len(e) < 60][:: max(1, len(_corpus.expressions()) // 150)]
        for i in range(workers):
            cdir = os.path.join(base, f"corpus-{i}")
            os.makedirs(cdir)
            if i % 2 == 1:  # small valid inputs in the data-provider layout: ASCII marker, text, then activation and mode bytes consumed from the end
                for j, t in enumerate(seeds_text):
                    with open(os.path.join(cdir, f"seed-{j}"), "wb") as f:
                        f.write(b"\x00" + t.encode("ascii", "ignore") + bytes([1, 0]))
            out = os.path.join(base, f"findings-{i}.json")
            log = open(os.path.join(base, f"log-{i}.txt"), "wb")
            procs.append((subprocess.Popen([sys.executable, "-m", "vf.fuzz_cel", out, cdir, f"-runs={runs}", f"-seed={run.seed * 1000 + i + 1}", f"-max_len={max_len}",
                                            f"-artifact_prefix={base}/", "-print_final_stats=1"], env=env, stdout=log, stderr=subprocess.STDOUT, cwd=root), out, log, i))
        stats = {"workers": workers, "runs_per_worker": runs, "iterations": 0, "evaluated": 0, "distinct_nontrivial": 0, "coverage_edges": [], "keys_seen": {}, "reproduced": 0, "not_reproduced": 0}
        seen_keys = set()
        for p, out, log, i in procs:
            p.wait()
            log.close()
            tail = open(log.name, "rb").read()[-4000:].decode("utf-8", "replace")
            m = re.findall(r"cov: (\d+)", open(log.name, "rb").read().decode("utf-8", "replace"))
            if m:
                stats["coverage_edges"].append(int(m[-1]))
            if not os.path.exists(out):
                raise HarnessError(f"fuzz worker {i} produced no findings file: {tail[-600:]}")
            doc = json.load(open(out))
            if doc["iterations"] < min(runs, 500) // 2:
                raise HarnessError(f"fuzz worker {i} stopped after {doc['iterations']} iterations: {tail[-800:]}")
            stats["iterations"] += doc["iterations"]
            stats["evaluated"] += doc["evaluated"]
            stats["distinct_nontrivial"] += doc["distinct_nontrivial"]
            for f in doc["findings"]:
                stats["keys_seen"][f["key"]] = stats["keys_seen"].get(f["key"], 0) + 1
                if f["key"] in seen_keys:
                    continue
                seen_keys.add(f["key"])
                problems = replay_fn(run, f["case"], f["key"])
                if problems:
                    stats["reproduced"] += 1
                    for k, d in problems:
                        run.fail(k, f["case"], d)
                else:
                    stats["not_reproduced"] += 1  # another property's oracle (C03 vs C04), or state that leaked between fuzz iterations
        run.tick(stats["evaluated"])
        run.event("fuzz-iterations", stats["iterations"])
        return stats
    finally:
        for p, *_ in procs:
            if p.poll() is None:
                p.kill()
        shutil.rmtree(base, ignore_errors=True)


class CpuBudgetExceeded(BaseException):
    """Raised inside a guarded call when it has used more CPU time than its (very generous) budget."""


class cpu_budget:
    """Bound the CPU time (user time of this process: ITIMER_VIRTUAL, so load on the machine does not count) of a call that normally costs about a
    millisecond. Used only where the property is about a call ending at all; the budget is four orders of magnitude above the normal cost and the
    inputs are bounded in size, so reaching it means the call does not end in any practical sense. Main thread only."""

    def __init__(self, seconds: float = 20.0) -> None:
        self.seconds = seconds

    def _fire(self, signum, frame):
        raise CpuBudgetExceeded(f"more than {self.seconds} s of CPU time")

    def __enter__(self):
        import signal

        self._old = signal.signal(signal.SIGVTALRM, self._fire)
        signal.setitimer(signal.ITIMER_VIRTUAL, self.seconds)
        return self

    def __exit__(self, *a):
        import signal

        signal.setitimer(signal.ITIMER_VIRTUAL, 0)
        signal.signal(signal.SIGVTALRM, self._old)
        return False
