"""Deterministic cooperative thread scheduler driven by sys.settrace line events.

Exactly one thread runs at a time (a baton). Line events inside the traced files (celpy/*.py and transpiled "<string>" code) are
counted globally; a schedule [(step_index, target_thread), ...] says at which global step the running thread is preempted and which
thread gets the baton. A schedule is a plain list of integers, so a failing one shrinks and replays deterministically.
"""

from __future__ import annotations

import sys
import threading
import time
from typing import Any, Callable, Dict, List, Optional, Sequence, Tuple


class Stall(Exception):
    """The scheduled run made no progress for too long (harness problem, never a violation)."""


def default_filter(filename: str) -> bool:
    return filename == "<string>" or "/celpy/" in filename.replace("\\", "/")


class Scheduler:
    def __init__(self, bodies: Sequence[Callable[[], Any]], schedule: Sequence[Tuple[int, int]], trace_filter: Callable[[str], bool] = default_filter,
                 stall_seconds: float = 60.0) -> None:
        self.bodies = list(bodies)
        self.n = len(self.bodies)
        self.switch_at: Dict[int, int] = {}
        for step, target in schedule:
            self.switch_at.setdefault(int(step), int(target) % self.n)
        self.filter = trace_filter
        self.events = [threading.Event() for _ in range(self.n)]
        self.done = [False] * self.n
        self.results: List[Any] = [None] * self.n
        self.errors: List[Optional[BaseException]] = [None] * self.n
        self.steps = 0
        self.steps_by_thread = [0] * self.n
        self.effective_switches: List[Tuple[int, int, int, str]] = []  # (step, from, to, location)
        self.current = 0
        self.stall_seconds = stall_seconds
        self.lock = threading.Lock()
        self.record = False
        self.step_names: List[str] = []
        self.step_lines: List[Tuple[str, int]] = []

    # -- baton -------------------------------------------------------------------------------------
    def _wait_for_baton(self, i: int) -> None:
        if not self.events[i].wait(self.stall_seconds):
            raise Stall(f"thread {i} waited {self.stall_seconds}s for the baton")
        self.events[i].clear()

    def _pass_baton(self, frm: int, to: int) -> None:
        self.current = to
        self.events[to].set()

    def _next_alive(self, after: int) -> Optional[int]:
        for k in range(1, self.n + 1):
            j = (after + k) % self.n
            if not self.done[j]:
                return j
        return None

    # -- tracing -----------------------------------------------------------------------------------
    def _global_trace(self, i: int):
        def local(frame, event, arg):
            if event == "line":
                self._step(i, frame)
            return local

        def glob(frame, event, arg):
            if event == "call" and self.filter(frame.f_code.co_filename):
                return local
            return None

        return glob

    def _step(self, i: int, frame) -> None:
        self.steps += 1
        self.steps_by_thread[i] += 1
        if self.record:
            self.step_names.append(frame.f_code.co_name)
            self.step_lines.append((frame.f_code.co_filename.rsplit("/", 1)[-1], frame.f_lineno))
        target = self.switch_at.get(self.steps)
        if target is None or target == i or self.done[target]:
            return
        self.effective_switches.append((self.steps, i, target, f"{frame.f_code.co_filename.rsplit('/', 1)[-1]}:{frame.f_lineno}:{frame.f_code.co_name}"))
        self._pass_baton(i, target)
        self._wait_for_baton(i)

    # -- threads -----------------------------------------------------------------------------------
    def _thread(self, i: int) -> None:
        try:
            self._wait_for_baton(i)
            sys.settrace(self._global_trace(i))
            try:
                self.results[i] = self.bodies[i]()
            finally:
                sys.settrace(None)
        except BaseException as ex:  # recorded, judged by the caller
            self.errors[i] = ex
        finally:
            self.done[i] = True
            nxt = self._next_alive(i)
            if nxt is not None:
                self._pass_baton(i, nxt)

    def run(self) -> List[Any]:
        threads = [threading.Thread(target=self._thread, args=(i,), daemon=True) for i in range(self.n)]
        for t in threads:
            t.start()
        self.events[0].set()
        deadline = time.time() + self.stall_seconds * 2
        for t in threads:
            t.join(max(0.1, deadline - time.time()))
        if any(t.is_alive() for t in threads):
            raise Stall("scheduled threads did not finish")
        for e in self.errors:
            if isinstance(e, Stall):
                raise e
        return self.results


def run_alone(body: Callable[[], Any], trace_filter: Callable[[str], bool] = default_filter) -> Tuple[Any, int]:
    """Run one body alone under the same tracer (so that code paths and step counts are comparable); returns (result, steps)."""
    s = Scheduler([body], [], trace_filter)
    s.record = True
    res = s.run()
    if s.errors[0] is not None:
        raise s.errors[0]
    run_alone.last_step_names = s.step_names  # type: ignore[attr-defined]
    run_alone.last_step_lines = s.step_lines  # type: ignore[attr-defined]
    return res[0], s.steps
